"""Per-property wording for MANIFEST.json."""
NOT_CLAIMED_REASON = {}
TEXT = {'C11': {'technique': 'Lean 4 proof by mutual structural induction over the term model (all terms, cutoffs, amounts); model tied to de_bruijn.rs / term.rs by '
                      'a translator of the match arms (tables regenerated every run, interpretation proved equal to the model functions) and by exhaustive '
                      'small-scope + random differential correspondence; algebraic laws and a named-substitution oracle searched on the implementation',
         'level': "**The property's first clause is a theorem: on a calculus of named terms (no shadowing, as gram demands) opening the de Bruijn translation "
                  'is the translation of capture-avoiding substitution (C11_open_is_named_substitution: toDB Γ (b[u/x]) = open (toDB (x::Γ) b) 0 (toDB Γ u) 0, '
                  'with the weakest freshness hypotheses) and shifting is weakening by a fresh binder at any depth (C11_shift_is_named_weakening).** The ten '
                  'laws of C11 (shift by zero, additivity, unsigned = signed, down undoes up, failure exactly on unbinding, opening a non-occurring variable = '
                  'lowering, predicted free variables of shift and open, open-after-lift, list/predicate agreement) are theorems for every term, cutoff, '
                  "amount and group length, checked by Lean's kernel. They speak about the model. **Translator tie (regenerated on every run):** "
                  'extract/arms.py reads the Rust match arms themselves and writes them as Lean data (Generated/Arms.lean); for every arm of signed_shift, '
                  'open and free_variables — one row per Rust variant, nine rows for the nine binary operators the model collapses — which children are '
                  'traversed, where they are put back and how cutoff / index / shift amount change; C11_shift_arms_tie, C11_open_arms_tie, C11_fv_arms_tie '
                  'prove that the generic interpretation of these tables IS sshift / openT / freeVars for every term, so a changed Rust arm breaks a theorem, '
                  'arm by arm (checked against all C11 seeds: each changes its row). The model is also tied to the Rust by running '
                  'signed_shift/open/free_variables and the model on all hole-free terms up to a size bound with every operator, and on random larger terms. '
                  'Also proved: commutation of lifting with lifting and with opening, and the substitution lemma (open/open) in its correct form — two first '
                  'formulations were refuted by the proof attempt and are kept next to their refutations. **Store layer (Lemmas/StoreTransparent.lean): on '
                  'terms all of whose hole cells are solved, the store-aware sshiftS / ushiftS / openS / freeAtS (the models of the `Unifier` arms) return '
                  'exactly the pure function of the zonked term and leave the store untouched (C11_store_shift_transparent, C11_store_ushift_transparent, '
                  'C11_store_open_transparent, C11_store_fv_transparent), so the laws transfer (C11_store_laws); with enough fuel they always answer '
                  '(C11_store_open_fv_total).**',
         'note': 'Trusted: Lean kernel, axioms {propext, Quot.sound, Classical.choice}, the correspondence harness and driver. Congruence arms of '
                 'signed_shift/open/free_variables: regenerated from source and proved equal to the model; Variable/Unifier arms: modelled by hand, pinned by '
                 'CRC of their text, tied by correspondence. Trusted: extract/arms.py.'},
 'C02': {'technique': 'Lean 4 proof that the model evaluator is sound, complete and deterministic w.r.t. an inductive CBV step relation (fun_induction / rule '
                      'induction), plus arithmetic/comparison specifications; model tied to evaluator.rs by comparing every intermediate term of every run; '
                      'reference big-step oracle on the implementation',
         'level': 'step_sound, step_complete, determinism, irreducibility of values, evaluator-finds-the-prescribed-result, exact arithmetic, truncating '
                  'division, comparison and conditional laws, evaluation order of applications and of binary operators, first-definition-first for groups, '
                  'fuel-independence of the result and the fixed-point law of a recursive definition are kernel-checked theorems about the model for all terms '
                  'and all integers. Translator tie (regenerated on every run): the primitive of each of the nine binary arms of evaluator.rs::step (operator, '
                  "operand order, which boolean the `if` yields, checked_div) is read off the source and proved to compute the model's delta for all operands "
                  '(C02_step_prims_tie); the order of sub-steps/value tests and the two congruence nodes of each arm are checked against the one shape the '
                  'model implements (C02_step_shape_tie). The tie to the rest of evaluator.rs is differential: all closed arithmetic/conditional terms to '
                  'depth 2 over boundary operands (0, ±1, ±2^64, ±10^40 ...), samples at depth 3, recursive and mutually recursive groups, random raw terms, '
                  'each compared step by step. **Natural semantics (Lemmas/BigStep.lean): a big-step relation `Big` with one rule per construct, written as '
                  'the language definition states it (function then argument then body; both operands then the primitive; only the chosen branch of a '
                  'conditional; the first definition of a group, then the rest with its unfolding substituted — literally the right-hand side of the '
                  "evaluator's group step), is proved equivalent to the small-step evaluator model: C02_big_sound, C02_big_complete, C02_big_iff_eval, "
                  'C02_big_deterministic, inversion C02_big_rules; a fuelled big-step interpreter bigEval is sound, complete and fuel-monotone for it '
                  '(C02_bigEval_sound/complete/mono), stuck and dividing-by-zero programs have no value (C02_big_stuck, C02_div0_no_value).**',
         'note': 'Trusted: Lean kernel, the three standard axioms, harness and driver. Modelled, not verified: evaluator.rs, de_bruijn.rs. Not modelled: the '
                 '16 MiB stack.'},
 'C09': {'technique': 'Lean 4 proof over a tokenizer model parametric in the Unicode classifier (invariants of the scanning loop by induction on fuel; keyword '
                      'table regenerated from source and decided); tied to tokenizer.rs by exhaustive short strings over a class-representative alphabet + '
                      'random Unicode texts; the partition predicate searched on the implementation',
         'level': 'Kernel-checked for every text and every classifier: failures list at least one symbol, the keyword table is a bijection of whole words, '
                  'literal values are positional in unbounded Nat; ranges are ordered, disjoint, non-empty and inside the text; the tokenizer is total (its '
                  "panic arm is dead); a word is a keyword iff it equals the keyword; every token's range contains exactly its lexeme; **maximal munch** (an "
                  'identifier or number token is never followed directly by a character that would continue it); **everything between tokens is blank or '
                  'comment** (every text position is inside a token, a blank, a comment or a line break that the filter dropped); **no token starts inside a '
                  'comment** (for a classifier under which `#` is not a word character; the unrestricted first formulation is refuted and kept next to its '
                  'refutation); **the reported errors are exactly the unexpected symbols**, in order. The model is tied to the code by op `tok` (token kinds, '
                  "payloads, byte ranges, error ranges). The full partition predicate of C09 is evaluated on the implementation's output for every generated "
                  'text. **Translator tie:** the symbol arms of the first pass (first character, peeked second character, byte length, kind) and the order of '
                  'the arms of `match c` are regenerated from tokenizer.rs on every run; every row is proved to be a step of the model scanner for every '
                  'classifier, position and state (C09_symbol_arms_tie), the rows are proved to be exactly the 18-entry symbol table of the render/tokenize '
                  "law (C09_symbol_table_tie), and the arm order is the model's (C09_scan_arm_order).",
         'note': 'Trusted: Lean kernel, standard axioms, harness/driver, the extractor (extract/extract.py). External, assumed: Rust std Unicode tables, '
                 'unicode-segmentation, num-bigint decimal parsing (exercised by correspondence).'},
 'C10': {'technique': 'Lean 4 proof of local scanner laws (comment = its line ending, blanks skipped, line break yields a terminator iff the regenerated '
                      'can-end table says so) and `decide` over the two line-break tables regenerated from tokenizer.rs; the full render/tokenize law proved '
                      'for the model (induction over the lexeme list with a scanner invariant) and searched on the implementation over random token sequences '
                      'and layouts; at parser level (line break interchangeable with `;`) the model parser, which does not look at the kind of a terminator, '
                      'is compared with the implementation on programs whose separators are respelled, and the respellings must fare alike',
         'level': 'Kernel-checked: a comment is skipped up to and not including its line feed (also at end of file), table obligations over all 29 token '
                  'shapes (operators/opening brackets cannot end, binary operators/closing brackets cannot start, `;` does both, line-break terminator never '
                  'ends), payload independence; in the scanner a comment behaves exactly like its line ending, blanks are skipped without effect, a line break '
                  'yields a terminator iff the can-end table says so, never two in a row, none leading or trailing. **The unbounded render/tokenize law is a '
                  'theorem** (C10_render_law: for every sane classifier, every text that is a leading gap, lexemes each followed by a gap of blanks / `#` '
                  'comments / line feeds, and an optional final comment, tokenizes without error or panic, and its token kinds are the lexeme kinds with a '
                  'line-break terminator exactly between a lexeme that can end and one that can start an expression whose gap contains a line break), with the '
                  'corollaries C10_layout_irrelevant (spaces, tabs, comments, repeated line breaks never change the token stream), C10_break_after_cannot_end, '
                  'C10_break_before_cannot_start, C10_linebreak_is_separator and the scanner-level form C10_render_scan. The law is also evaluated on the '
                  'implementation for random token lists with every gap filled by spaces, tabs, CR, NBSP, comments (empty, multi-byte, at EOF) and line '
                  'breaks. **Parser level: the parser model never looks at the KIND of a terminator — for token arrays that agree up to the spelling of '
                  'terminators (`;` vs line break) the parser, its memo table and counters, re-association, resolution and the definition-order check return '
                  'identical results (C10_terminator_kind_irrelevant, C10_terminator_kind_irrelevant_everywhere, C10_parse_terminator_irrelevant, '
                  'C10_respell_terminators); with the tokenizer law, a separating line break and a `;` at the same place give token streams that differ in '
                  'that one terminator only and parse alike (C10_semicolon_vs_linebreak, C10_semicolon_vs_linebreak_parse). In parser.rs the terminator type '
                  'is inspected only inside two error-message closures.**',
         'note': 'Trusted: as C09. The tables are regenerated from the source on every run, so a moved variant re-decides the obligations.'},
 'C01': {'technique': 'Lean 4 proof of the stuck-term classification (sound and complete w.r.t. the model evaluator) and kernel-evaluated negation witnesses '
                      'on the model type checker; checker and evaluator models tied to type_checker.rs/unifier.rs/normalizer.rs/evaluator.rs by differential '
                      'correspondence on every small sentence of grammar.y and on type-directed generated programs; progress searched per program on the '
                      'implementation',
         'level': 'PARTIAL. The full progress statement is false of the code (known findings KF-order, KF-holecopy, KF-barehole; one more defect, nested '
                  'groups not order-checked, was repaired). Proved for all terms: a term that neither steps nor is a value is stuck for exactly one classified '
                  'reason, values are never stuck; proved by kernel evaluation: the model checker accepts the KF-order and KF-barehole witnesses and their '
                  "evaluation is stuck. Also proved: **one-step progress for the independent checker's type system** — a hole-free term accepted by inferX (in "
                  'any context) that neither steps nor is a value is stuck at a variable in evaluation position or at a division by zero, never for a kind '
                  'reason. **Proved with the confluence development: progress and canonical forms for the declarative rules** (C01_declarative_progress: a '
                  'closed term well typed under Typing.lean is a value, steps, or is stuck at a not-yet-available definition or a division by zero) and **type '
                  'soundness of the checker model on the group-free fragment** (C01_checker_sound_run_nolet: a fully annotated program without definition '
                  "groups that the model of gram's checker accepts is, after any number of evaluation steps, a value or can step or divides by zero -- never "
                  'stuck for a kind reason, not even at a variable). Subject reduction w.r.t. the declarative rules is *refuted* for multi-definition groups '
                  '(C04_preservation_refuted: an intermediate term of a run that is perfectly fine has no type) and proved with the side condition that names '
                  'the problem (C04_preservation_fixed), so the statement for programs with groups (C01_checker_sound_run_stmt) stays open; it is decided per '
                  'program: every E-small sentence (<= 5 tokens quick, <= 6 thorough) and every G-prog program accepted by the real front end is evaluated by '
                  "the real evaluator and a stuck final term other than a division by zero is a violation unless it matches a recorded finding's signature. "
                  '**From source text: C01_pipeline_nolet — for every text whose front end yields a fully annotated term without definition groups that the '
                  'checker model accepts, after any number of evaluation steps the term is a value, can step, or is stuck at a division by zero (the scoping '
                  'hypothesis is discharged by the front end: C14_front_end_scoped).**',
         'note': 'Trusted: Lean kernel, standard axioms, harness/driver. Modelled, not verified: type_checker.rs, unifier.rs, normalizer.rs, evaluator.rs, '
                 'de_bruijn.rs (store layer). Hook H2 (feature verif-hooks) attributes hits to KF-holecopy.'},
 'C05': {'technique': 'Lean 4 proof that the checker model never wrongly rejects a fully annotated program the independent checker accepts (confluence of '
                      'conversion on erased terms, transfer of positive conversion verdicts between convertible forms, the group rule), a refutation of '
                      'unconditional completeness with a witness replayed on the real binary; Lean 4 proof (induction on fuel over the monadic checker model) '
                      'that elaboration returns the input term unchanged, that the hole store only grows and that diagnostics are never dropped; '
                      'kernel-evaluated witness of the repaired group rule; completeness searched with a type-directed program generator that knows each '
                      "program's type",
         'level': 'PARTIAL: the full statement is false of the code on programs whose types have no weak head normal form (known finding KF-divergent-type; '
                  "kernel-checked witness C05_loop_witness: the independent checker accepts, the model of gram's checker runs out of fuel at every fuel, and "
                  'the real binary overflows its stack). **Proved for the model (C05_checker_no_wrong_rejection, via a 4000-line confluence proof for '
                  "conversion): for a closed, fully annotated program without implicit binders that the independent checker accepts, gram's checker, at every "
                  "fuel, either runs out of fuel or accepts it with no diagnostic and a hole-free type convertible with the independent checker's; so a fully "
                  'annotated well-typed program is never wrongly rejected, it can only fail to terminate**; C05_checker_complete_holefree_fixed is the '
                  'fuel-existential form. (Implicit functions cannot be applied at all in gram -- `({a : type} => a) int` is rejected; the language gives them '
                  'no elimination form, so they are excluded by hypothesis, C05_implicit_witness.) Also proved: elaboration identity (nothing rewritten, '
                  'reordered, duplicated or dropped), store/diagnostic monotonicity, the repaired group-type rule on the former stack-overflow witness. '
                  'Acceptance of every fully annotated well-typed program is not proved; it is decided per program: G-prog generates fully annotated programs '
                  '(polymorphic, higher-order, dependent, recursive groups, type aliases, type-level computation) together with their expected type, and the '
                  'real checker must accept each with a type that unifies with the expected one; the elaborated term must be pointer-structurally the parsed '
                  'term.',
         'note': "Trusted: Lean kernel, standard axioms, harness/driver, the generator's own typing discipline (prog.rs). Modelled, not verified: "
                 'type_checker.rs, unifier.rs, normalizer.rs, de_bruijn.rs.'},
 'C12': {'technique': 'Lean 4 proof of store monotonicity, unreachability of the let-panic arm and occurs-check guarding for the unifier model; model tied to '
                      'unifier.rs/normalizer.rs/equality.rs by ops comparing verdict, store afterwards and context afterwards; scope/acyclicity/re-unification '
                      'oracles on the implementation over hole-punched terms',
         'level': 'PARTIAL for terms on which the two recorded hole defects strike; otherwise PROVED for the model. **Soundness of unification '
                  '(C12_unify_sound_fixed, 2100 lines): if `unify` answers true, allocated no cell (no hole-copy event, hook H2) and every hole sits at least '
                  'as deep as its shift says (no event of hook H4), then the two sides zonked with the final store are convertible under the declarative '
                  'rules.** The unrestricted statement is refuted three ways, two of them real defects of the Rust unifier (kernel-evaluated witnesses; the '
                  'gram programs are in corpus/d19*.g), the third a flaw of my first formulation (the algorithmic check can diverge where the rules hold). '
                  'Also proved: filled cells never change, whnf never returns a group so the panic arm is dead, every assignment is guarded by the occurs '
                  "check; **every recorded solution is in scope of its hole** (the solution is the other side lowered by the hole's shift, and lifting it back "
                  'gives the other side exactly: sshift c (-k) t = some r -> ushift c k r = t); kernel-evaluated occurs-check and scope-escape configurations. '
                  'Searched on the implementation: G-unify (holes punched at arbitrary positions and binder depths, random definitions contexts with offsets), '
                  'each success re-unifies, every solution is in scope of its hole and acyclic. **Last clause proved: unifying a hole-free well-scoped term '
                  'with itself or with any of its reducts never answers false, leaves the store unchanged and never panics (C12_unify_reduct, '
                  'C12_unify_self_eval; the version without the scoping hypothesis is refuted by a kernel-checked witness).** Translator tie: every structural '
                  'arm of unifier.rs::unify — each of the nine alternatives of the shared binary-operator arm included — unifies the i-th child with the i-th '
                  'child of the same variant (C12_unify_pairs_tie, table regenerated from the source on every run). **Occurs-check clause proved '
                  '(Lemmas/UnifyAcyclic.lean): a successful or failed unify (and the whole checker) keeps the hole store acyclic (C12_unify_acyclic, '
                  "C12_infer_acyclic, C12_whnf_syneq_acyclic); the occurs check computes exactly 'reachable and empty' (C12_occurs_exact), lowering only "
                  'mentions empty cells reachable from the un-lowered term (C12_lowering_holes), so at every assignment the hole is not reachable from its '
                  'solution (C12_assigned_not_self); zonking terminates on the stores unification produces (C12_zonk_terminates, C12_zonk_after_unify); '
                  'store-level scoping of a solution (C12_solution_scoped_store).**',
         'note': 'Trusted: Lean kernel, standard axioms, harness/driver. Hook H2 attributes failures caused by hole copies (KF-holecopy).'},
 'C18': {'technique': 'Lean 4 proof (Hoare-style triples over the state monad, induction on fuel) that normalisation, unification and type checking leave both '
                      'contexts exactly as they were on every path; contexts are state in the model and are pushed/popped where the Rust pushes/pops; the '
                      "implementation's context vectors are fingerprinted before and after every call",
         'level': "PARTIAL on the 'matches the closed program' clause for gram's own checker with holes; for the independent checker it is proved: **the "
                  'verdict does not depend on how a context entry is written (C18_rebase_invariant: re-basing entry i from (T, o) to (T lifted by k, o+k) '
                  'leaves inferX, whnfX and convX unchanged for every term and fuel, errors included), checking a closed one-definition group is checking its '
                  'parts under the extended contexts (C18_let_wrap), and a lambda likewise (C18_lam_wrap)**. Proved for all terms, stores and contexts: '
                  'whnf/unify/infer restore typing and definitions contexts, accepted or rejected. On the implementation every type_check / unify / normalize '
                  'call of the unify, programs and pipeline suites is bracketed by context fingerprints. **Whole-context form proved for the independent '
                  'checker (Lemmas/CtxWrap.lean): for any context built from parameter layers and definition-group layers of any length, in any interleaving, '
                  'whose domains/definitions are themselves accepted, checking the open term under the pushed context is accepted with type B iff the closed '
                  'program (λs / groups bound around it) is accepted with the closed type, and a genuine rejection on one side is the same rejection on the '
                  'other — for some fuel on either side, verdicts being fuel-independent (C18_ctx_wrap, C18_ctx_reject, C18_ctx_verdict, C18_ctx_accept_iff, '
                  'C18_params_wrap, C18_group_wrap, C18_mixed_wrap); conversion under parameters is conversion of the λ/Π-closed terms (C18_conv_lam, '
                  "C18_conv_pi, C18_conv_params), gram's unify pushes none / recurses / pops on binders (C18_unify_binder); conversion and normalisation under "
                  'a definition group agree with the closed group up to conversion (C18_conv_group, C18_whnf_group, C18_convX_group).** Translator tie: the '
                  'calls that matter in every non-operator arm of type_check_rec and in the binder arms of unify (which child is checked when, what is unified '
                  'with what, pushes and pops of the two contexts, the arguments of open/unsigned_shift) are regenerated from the sources on every run; '
                  'C18_contexts_balanced_tie decides that pushes and pops are LIFO and paired in every arm, C18_checker_event_traces_tie that the sequences '
                  "are the ones the model performs. **For gram's OWN checker model (Lemmas/CtxWrapS.lean): checking `closeParams ps t` with inferS equals, as "
                  'a state-passing computation (values, diagnostics, store, out-of-fuel, panic), checking each domain in turn, pushing, checking `t`, popping, '
                  're-wrapping (C18_params_wrap_S, with C18_pi_wrap_S and C18_let1_wrap_S for the other binders); hence, when the domains are accepted, the '
                  'closed function is accepted iff the open body is accepted in the pushed state, types related by the iterated Π, same store and diagnostics, '
                  "and the caller's contexts are restored (C18_params_verdict_S, C18_params_accept_iff_S, C18_params_closed_run_S).**",
         'note': 'Trusted: Lean kernel, standard axioms, harness/driver.'},
 'C13': {'technique': "Lean 4 proof that sorting makes the visiting order invariant under any permutation of a hash container's elements, plus `decide` that "
                      'every hash-iteration site extracted from the sources is a sorted one; repeated launches of the real binary with byte comparison',
         'level': 'Proved: order-independence of the one hash iteration of the code (after the repair of D11), and that the regenerated list of hash-iteration '
                  'sites contains only sorted ones. Runtime nondeterminism cannot be exhibited by a Lean model; it is searched by launching the real binary 8 '
                  '(quick) / 50 (thorough) times per file and mode on the corpus and on generated files with several diagnostics. Added: in the parser model '
                  'the loop of check_definition runs over `sortDedup` of the free variables, which depends on them only as a SET — any hash order and '
                  'multiplicity gives the same visits and diagnostics (C13_model_site_set_function); and a table, regenerated on every run, of every use in '
                  'non-test code of an API whose result can differ between runs (clocks, randomness, threads, environment, pid, pointer formatting / casts / '
                  "hashing, directory listing, hasher state, parallel iterators, shared mutable state): exactly `main`'s single joined thread and HashableRc's "
                  'address hash, which only feeds `contains` (C13_nondeterminism_sources); the hash-iteration extractor follows type aliases (`type Cache = '
                  'HashMap<..>`). Repeated launches of the real binary (8 quick / 50 thorough per file and mode) on the corpus, on generated multi-diagnostic '
                  'programs and on single-syntax-error programs decide the rest.',
         'note': "Trusted: Lean kernel, standard axioms, the extractor's pattern for hash iteration, OS process semantics."},
 'C14': {'technique': 'Lean 4 proofs that the panic arms of the tokenizer and the unifier are dead and that failure lists are non-empty, `decide` that every '
                      'panic site extracted from the sources is a classified known one, model of the CLI result mapping; in-process stages under catch_unwind '
                      'and the real binary on byte strings, token soups and corrupted corpus files',
         'level': 'PARTIAL by nature (stack exhaustion is a recorded finding; a second finding, KF-holedepth, is a panic of the type checker found by the '
                  'attempt to prove its absence). Proved: **the type checker model never panics on a hole-free program** (C14_infer_no_panic_fixed), '
                  '`unsigned_shift` never panics, a panic of the checker can only be one of the four context lookups and on a well-scoped term only the '
                  'definitions-context indexing of normalize_weak_head (C14_infer_one_live_site), with two kernel-evaluated witnesses that this one is live '
                  '(the Rust binary panics on both); tokenizer total; unifier let-panic dead; **the model parser terminates** (fuel 36(n+1)+1 always suffices: '
                  'no left recursion, by a rank/position measure over the 36 functions); **the model front end never panics** (a tree without recorded errors '
                  'contains no ParseError node — the confident-flag invariant —, so re-association and resolution never meet one; the definition-order check '
                  'neither panics nor runs out of fuel) and rejects only with a non-empty diagnostic list; CLI contract of the result mapping; panic-site list '
                  'covered. Searched: every in-process stage call of the lexer/parser/pipeline suites runs under catch_unwind; the real binary is run on all '
                  'byte strings up to length 2 (sample of length 3 in quick, all in thorough) over a 40-element alphabet including invalid UTF-8, on token '
                  'soups and on truncated/corrupted corpus files, and must respect the exit/stdout/stderr contract. Translator tie: the stage calls, error '
                  'propagations, output macros and exits of main.rs (run / entry / main) are regenerated on every run and C14_cli_streams_tie decides over '
                  'them that `run` writes to standard output only and only after tokenize, parse and type_check succeeded, `entry` writes nothing, and `main` '
                  'writes to standard error only, each write followed at once by exit(1). **End to end from source text (Lemmas/FrontEnd.lean): for EVERY '
                  'classifier, interner, text and context the front end (tokenize, token conversion, parser, re-association, resolution, definition-order '
                  'check) returns lexical errors (non-empty), parse errors (non-empty) or a term — never a panic, never out of fuel (C14_front_end_total); the '
                  'term is well scoped in its context (C14_front_end_scoped); if it is fully annotated the checker model never panics on it '
                  '(C14_pipeline_no_panic_annotated), and with holes the only reachable panic site is the one of KF-holedepth (C14_pipeline_one_live_site).**',
         'note': 'Trusted: Lean kernel, standard axioms, extractor, harness.'},
 'C17': {'technique': '`decide` over the shape of the 36 packrat functions and fingerprints of the caching macros regenerated from parser.rs; memo-table model '
                      "whose per-nonterminal hit/miss counters are compared with the implementation's (hook H1); wall-clock scaling measured on the real code "
                      'for 25 input families',
         'level': 'PARTIAL by nature (a theorem cannot bound wall-clock time). Decided by the kernel on every run: every parse function starts with '
                  'cache_check! under its own nonterminal and leaves only through the caching macros; one function per nonterminal; macros and cache type '
                  "unchanged. Correspondence: the model parser (explicit memo table) reproduces the implementation's per-nonterminal cache hits and misses "
                  'exactly on every `parsestats` op. Proved for the model: a miss runs the body once and inserts its key, a hit runs nothing, the cache only '
                  'grows, **total misses <= 36(n+1)** and **total calls (hits + misses) <= 361(n+1)** for every token sequence (no body calls a parse function '
                  'in a loop; the largest body makes 9 calls), together with termination: the packrat phase does linear work; the same bound is checked on the '
                  "implementation's counters for every family. Measured: tokenize+parse time for nested/unclosed/mis-closed parentheses, "
                  'operator/application/definition/conditional/lambda/arrow/negation/comparison chains, long-and-nested inputs, shared dependency graphs, at n '
                  '= 250..2000 (4000 thorough); a local growth exponent above 4.5, a run above 30 s or a sweep that does not finish is a violation with family '
                  'and n as replay. **Step counts (Lemmas/CostBounds.lean), each counting twin tied to the model function by a first-component equality: the '
                  "tokenizer's main loop plus its inner loops inspect every character at most twice (C17_scan_steps_le: ≤ 2·n, the constant is attained), fuel "
                  '`length` is enough (C17_scan_fuel_enough), the second pass makes length+1 calls (C17_filter_linear), the whole tokenizer ≤ 4·n + 1 steps '
                  'and at most n tokens (C17_tokenize_linear); one error-recovery scan inspects at most the remaining tokens + 1 (C17_recovery_scan_le, '
                  'attained); a body execution of parse_let / parse_if scans at most twice, parse_group once, the other 33 never (C17_body_scans_le, for '
                  'writer-style twins of the bodies); with one body execution per miss and misses ≤ 36·(n+1): calls + scan budget ≤ 361·(n+1) + 72·(n+1)² '
                  '(C17_parse_steps_quadratic — the sum over body executions is arithmetic over these three theorems, not a counter threaded through the '
                  'run).**',
         'note': 'Trusted: Lean kernel, extractor, harness timing. Not modelled: the machine.'},
 'C03': {'technique': 'independent explicit checker inferX written in Lean (normalise-and-compare conversion, no unification variables), run by the compiled '
                      'driver on the zonked elaboration of every program the real checker accepts (translation validation); Lean proofs about inferX (scoping, '
                      "constants, rejection of ill-kinded arithmetic) and a kernel-evaluated negation witness; model of gram's checker tied to the code by op "
                      '`infer`',
         'level': 'PARTIAL for programs with holes, PROVED for the model on fully annotated programs. The full statement is false of the code (known findings '
                  'KF-holecopy and KF-holedepth; one more defect, untyped annotations, was repaired). **Proved (C03_checker_sound_holefree): if the model of '
                  "gram's checker accepts a closed hole-free program without error, the zonked elaboration has the zonked reported type under the declarative "
                  "rules of Typing.lean** (1900 lines; the three shapes of `unify` calls the checker makes, the group rule's unfolded type convertible with "
                  'the declarative one); the elaboration of a hole-free program is the program. Also proved: the independent checker only accepts well-scoped '
                  "hole-free terms, types constants exactly, rejects arithmetic on booleans; by kernel evaluation the model of gram's checker accepts `((f : "
                  'int -> _) => f 1 + 1) ((x : int) => true)` while the independent checker rejects its elaboration. Decided per program: every E-small '
                  'sentence and every G-prog program (incl. their single-point ill-typed perturbations) accepted by the real checker must be accepted by '
                  'inferX at the reported type. **The independent checker is proved sound for the declarative typing rules** (`Typing.lean`: head reduction, '
                  'convertibility as the least congruence-equivalence containing it, a pure type system with type:type, groups and a conversion rule): `whnfX` '
                  'only rewrites to convertible terms, a positive `convX` on hole-free terms is a derivation of convertibility, `inferX ... = ok T` implies '
                  '`HasType Γ Δ t T`, `oracleAccepts e ty = ok true` implies `HasType [] [] e ty`; and its verdicts do not depend on the fuel (fuel '
                  'monotonicity of whnfX/convX/inferX/oracleAccepts). Translator tie: every binary-operator arm of type_check_rec infers each operand, unifies '
                  'ITS type with int (error at that operand), rebuilds the same operator and returns int / bool as the model does (C03_check_shape_tie, table '
                  'regenerated from type_checker.rs on every run).',
         'note': 'Trusted: Lean kernel, standard axioms, harness/driver, the declarative rules (Typing.lean, 130 lines; the oracle Oracle.lean is proved sound '
                 'for them on hole-free terms). Hook H2 attributes rejections caused by hole copies.'},
 'C04': {'technique': 'Lean proofs of subject reduction (group-free fragment; refuted in general, with the corrected statement), of canonical forms from '
                      'consistency of conversion (confluence), and of `the value inhabits the reported type` for the checker model on the group-free fragment; '
                      'Lean proofs of the shape of the type of a value and canonical forms for the independent checker; the value of every terminating '
                      'accepted program typed by inferX and compared with the reported type (translation validation), plus a direct shape test on the '
                      'implementation',
         'level': 'PARTIAL: proved for the model on the group-free fragment, decided per program beyond it. **Proved: C04_value_inhabits_type_nolet -- if the '
                  "model of gram's checker accepts a closed fully annotated group-free program at (zonked) type T and running it reaches a value v, then v has "
                  'type T under the declarative rules, and if T is convertible with int (bool) then v is an integer literal (true/false)**; subject reduction '
                  'for the group-free fragment in arbitrary contexts (C04_preservation_nolet) and, with an explicit side condition on group unfolding, in '
                  'general (C04_preservation_fixed; the unconditional statement is refuted by a three-line program whose intermediate term is untypable, '
                  'C04_preservation_refuted -- a limit of the declarative specification, not a defect of gram: the program runs fine); canonical forms under '
                  'the declarative rules from consistency of conversion (C04_canonical_forms_declarative). Also proved: the type inferX assigns to a value is '
                  "determined by the value's shape; canonical forms (a value of type int is a literal, of type bool is true/false, of a function type is a "
                  'function); values are normal. Decided per program: value and reported type of every terminating accepted E-small / G-prog program go to the '
                  "independent checker; on the implementation the weak-head normal form of the reported type must match the value's kind.",
         'note': 'Trusted: as C03.'},
 'C06': {'technique': 'Lean proofs that syntactic equality is an equivalence, conversion is reflexive at any fuel, normalizer and evaluator share the delta '
                      'rules, values are whnf fixed points, the store-layer syntactically_equal coincides with the pure one on hole-free terms, unify(t,t) '
                      'succeeds; agreement normalizer/evaluator, unify(t, reduct), symmetry searched per program; the two normalizers (store layer = model of '
                      "normalize_weak_head, pure layer = the independent checker's) are proved to agree on hole-free terms on the implementation",
         'level': 'The clauses that need confluence are now theorems (Lemmas/ConvCoherence.lean): **C06_eval_whnf_agree / C06_eval_whnfS_agree — if running a '
                  "hole-free term yields a literal or boolean and the checker's normalizer (independent model whnfX, and the model whnfS of "
                  'normalize_weak_head) answers, it answers the same literal; C06_conv_reduct — a term is never judged different from a term it reduces to; '
                  'C06_conv_complete / C06_conv_decides — on hole-free terms the judgement, whenever it answers, answers true exactly when the terms are '
                  'convertible, i.e. have a common reduct up to names and annotations (C06_conv_iff_join); C06_step_conv — every evaluation step is a '
                  'conversion.** The converse direction (normal form ⇒ run result) is refuted for stuck programs (`((x : int) => 3) (1 / 0)`, call-by-name vs '
                  'call-by-value) and proved when the run ends in a value. Translator tie: the primitive of every binary arm of normalize_weak_head equals '
                  "delta and equals the evaluator's (C06_whnf_prims_tie); every structural arm of syntactically_equal relates like with like "
                  "(C06_syneq_pairs_tie). Still per program only: termination. **Proved: on hole-free terms gram's own conversion check (model of `unify`) "
                  'agrees with the independent check `convX` whenever both answer, changes nothing, is symmetric, and never panics on well-scoped terms** '
                  '(C06_unify_layers_agree_fixed, C06_unify_symm, C06_unify_no_panic); `convX` is symmetric and fuel-monotone. Also proved for the model: '
                  'refl/symm/trans of syntactic equality; conv refl (even for non-normalising terms); shared delta; whnf of a value is the value; synEqS = '
                  'sameX on hole-free terms with enough fuel; unify of a hole-free term with itself succeeds and changes nothing. Searched on the '
                  'implementation for every terminating accepted program of ground type: normalize_weak_head(e) equals evaluate(e); unify(e,e), unify(e, '
                  'value), unify(value, e), unify(e, step^k e) for k = 1..3.',
         'note': 'Trusted: Lean kernel, standard axioms, harness/driver.'},
 'C15': {'technique': 'Lean model of error.rs::listing (uncoloured) with theorems characterising the lines shown, the line numbers, the line text and the '
                      "marked columns for every text and range, and exactly when slicing panics; Lean proof that every node of the parser model's output spans "
                      'exactly its tokens (refinement of the grammar-soundness invariant carrying the tree); model tied to the code by op `listing` '
                      '(exhaustive short texts with every range, random multi-line programs); independent line/column oracle on the implementation; diagnostic '
                      'ranges of parse/scope/order errors compared through hook H3',
         'level': 'Proved for every text, range and whitespace classifier: which lines are shown (exactly those the range intersects, increasing), their '
                  '1-based numbers, the row text (source line minus trailing whitespace), the marked columns (range clipped to the trimmed line; from the '
                  'first non-blank character on continuation lines), totality, the exact panic condition and its absence for token-span ranges. Correspondence '
                  'on all texts of length <= 4 (<= 5 thorough) over {a, space, LF, é, tab} with every range, and on random CRLF/indented/non-ASCII programs. '
                  'The ranges of the diagnostics the parser produces are compared with the parser model on every `parse` op. **Span exactness is a theorem for '
                  'all 36 parse functions** (C15_span_exact, C15_tree_spanned, C15_root_range, C15_ranges_nested, C15_memo_transparent): whenever the model '
                  "parser returns a tree without recorded error, every node's range runs from the start of its first token to the end of its last token "
                  "(parentheses included for a group, binder variables carry exactly their identifier token's range), children lie inside their parent, "
                  'siblings are disjoint and in source order — before re-association (after it: known finding KF-range-paren-chain). Type-error ranges are '
                  'observed, not modelled. **Scoping diagnostics (Lemmas/ResolveRanges.lean): the errors `resolve` adds are exactly what a linear run over the '
                  "tree's scope events reports (C15_scope_errors_exact, C15_scope_error_classified: an occurrence whose name is unbound there, a binder whose "
                  'name is bound there, nothing else), every range is the range of a variable node or of a binder of the tree (C15_scope_error_ranges), in '
                  'traversal order (C15_scope_errors_in_traversal_order; plain source order is refuted: a group registers all its names first — the binary '
                  'prints the same order), re-association leaves the events untouched (C15_reassoc_keeps_events), and on a tree the parser produced every such '
                  'range is an identifier token, for an occurrence possibly with the parentheses written directly around it '
                  '(C15_scope_error_is_identifier_fixed; the bare-token form C15_scope_error_is_identifier holds when no `( x )` occurs and is refuted '
                  'otherwise: a parenthesised variable is a subexpression whose range includes its parentheses — the reading the range oracles have used all '
                  'along).** Type-error sites: C15_type_error_sites.',
         'note': 'Trusted: Lean kernel, standard axioms, harness/driver; Unicode whitespace supplied by Rust std.'},
 'C16': {'technique': 'Lean 4 proof of the round trip for the models of printer, tokenizer, parser, re-association passes and resolver: the printed text '
                      'tokenizes (separation invariant + the C10 render law) to a sentence of the grammar regenerated from grammar.y, the packrat parser model '
                      'reads it back to the expected tree (completeness on the printed sublanguage), the passes and name resolution return the term itself; '
                      'plus theorems on which operand positions are parenthesised and `decide` that the atomic set and the operator arms equal the ones '
                      'regenerated from term.rs; models tied to term.rs / tokenizer.rs / parser.rs by translator tables and by correspondence (op `print` on '
                      'every (parent position, child former) pair of parser-produced terms, G-prog programs and raw terms with cells); print / re-tokenize / '
                      're-parse oracle on the implementation',
         'level': 'The round trip print → tokenize → parse → re-associate → resolve is closed by proof for the five models. Parse step: **C16_parse_printed — '
                  'for every printable term, the parser model run on ANY token array whose kinds are the printed kinds succeeds, records no error, consumes '
                  'every token and returns exactly the expected tree (names, implicitness, annotations, operator structure, `group` flags, with exact '
                  'token-span ranges): completeness of all 36 packrat functions on the printed sublanguage, ordered choice included (every earlier alternative '
                  'is shown to fail); C16_chain_left_nested / C16_printed_application_left_nested — the applications pass gives printed application chains '
                  "their left nesting back.** **Passes and resolution: C16_reassoc_printed (the three passes turn the parsed tree into the term's own surface "
                  'tree), C16_resolve_printed, and C16_read_back — for every hole-free printable term that is well scoped in a scope of distinct '
                  'non-placeholder names (group names pairwise distinct and fresh, no empty group, no group directly as the body of a group: shapes the '
                  'printer prints like their flattening), print → tokenize → parse → re-associate → resolve returns the term itself, names of unused '
                  'function-type parameters aside, with no diagnostic.** What remains outside the theorem: terms with unresolved holes (`_` reads back as a '
                  'fresh hole), the two exclusions (KF-print-implicit, negative literals in values), and the tie of the five models to the Rust '
                  '(correspondence). **Tokenizer step: the text printed for any term tokenizes — no error, no panic, no two printed tokens fuse — to exactly '
                  'the token kinds `printKinds` (C16_print_tokenizes: for every classifier that treats the keyword letters, space, digits and `)` `}` `;` as '
                  'Rust std does, and every name table mapping the printed names to identifier lexemes), and that token sequence is a sentence of grammar.y '
                  '(C16_printed_text_is_sentence, C16_print_derives) for every term without an implicit non-dependent function type (KF-print-implicit; proved '
                  'not a sentence) and without a negative literal (never in a parsed or elaborated term; `f -1` and `f - 1` are proved to be the same '
                  'tokens).** The printed text is the flattening of a lexeme list that mirrors the printer arm by arm (C16_print_items), digits round-trip '
                  '(C16_decimal_digits). Proved: the bare/parenthesised partition equals the regenerated table; group parenthesises exactly the non-atomic '
                  'formers; every operand position of every operator, application and definition goes through group, the bare positions are exactly the listed '
                  'ones; printing depends on indices only through the dependent/non-dependent test; resolved cells are transparent; pure and store layers '
                  'agree. Searched: every parser-produced term is printed, re-read by the real front end and compared structurally (1038 of 1053 '
                  'position/child pairs occur, the rest are impossible). Known finding KF-print-implicit (`{A} -> B`).',
         'note': 'Trusted: Lean kernel, standard axioms, extractor, harness/driver.'},
 'C19': {'technique': 'Lean proofs of the evaluation-level facts behind the rewrites (if-true, applied identity, unused definition, named subexpression) and '
                      'that names never influence shifting, opening, stepping or evaluation; metamorphic search on the implementation: seven rewrite kinds '
                      'applied at random sites of every generated program, (accepted?, value) compared through the real pipeline',
         'level': "PARTIAL: acceptance-invariance is proved for the independent checker (the algorithm of the declarative rules), not for gram's own checker "
                  'with holes; and it is false of the code next to the index of a recursive type family (known finding KF-recfam-loop, reproduced on the real '
                  'binary by this check). **Proved (typing level): a term the independent checker accepts at T is still accepted at T after `if true then e '
                  'else e`, after wrapping in an annotated identity (exactly T), after putting an unused definition in front (at a type convertible with T; '
                  "the first formulation forgot that context offsets must be in range and was refuted), and the checker's answer depends on a term only up to "
                  'names (whnfX, convX, inferX commute with erasing names); weakening of the independent checker at arbitrary depth.** Proved (evaluation '
                  "level): `if true then e else e'` steps to e; an applied annotated identity returns its value argument; an unused value definition is "
                  'dropped; `x = v; x` evaluates to v; every semantic function of the model commutes with erasing names (consistent renaming cannot change a '
                  'result). Searched: rename, redundant parentheses, unused definition, name a subexpression, identity wrap, if-true wrap, reorder independent '
                  'function definitions, up to three per program, on every accepted G-prog program; a changed outcome is a violation with both programs as '
                  'replay. **Added: naming a subexpression — the named program `x : A = s; b` and the in-place program are convertible in every context '
                  '(C19_name_conv, recursive form C19_name_conv_rec), the named one evaluates to the body with the value substituted (C19_name_eval), and '
                  'whenever both print a value it is the same value (C19_name_result, C19_name_result_eval); the rewrite is strict — naming a subexpression of '
                  'an unevaluated branch that divides by zero changes the outcome (C19_name_strict_witness, reproduced on the binary: CBV, not a defect). '
                  'Reordering two independent non-recursive definitions: both orders are convertible, evaluate to a common term and print the same value '
                  '(C19_reorder_conv, C19_reorder_eval, C19_reorder_result). Redundant parentheses at parser level: parentheses around the whole program, or '
                  'around an operand the re-association pass keeps in place, change nothing but ranges and group flags through the three passes and resolution '
                  '(C19_paren_whole, C19_paren_whole_pass, C19_paren_operand, C19_paren_operand_applies).** Typing invariance of naming and of reordering is '
                  'not proved (searched). **Source-level renaming (Lemmas/ResolveRename.lean): for a renaming that is injective on the names of the program '
                  'and of the context and respects the placeholder, resolving the renamed program commutes with resolving the original — same success or '
                  'failure, same indices, hole ids and structure, the same diagnostics at the same ranges, the renamed final context (C19_resolve_rename, '
                  'C19_resolve_rename_erased); so do the definition-order check (C19_rename_check_definitions) and everything after the parse phase '
                  "(C19_rename_finish_parse); hence, names erased, the independent checker's verdict and type and every evaluation result coincide "
                  '(C19_rename_pipeline). A renaming that captures (`y ↦ x` in `x => y => x`) or maps to `_` changes the outcome (kernel-checked witnesses, '
                  'same on the binary).** **Redundant parentheses at TOKEN level (Lemmas/ParenTokens.lean, using parser completeness): wrapping a whole '
                  'program (any sentence) in parentheses yields a sentence again (C19_paren_sentence, C19_segment_shift) and the whole front end returns the '
                  "same resolved term — names, indices, hole ids, every inner range; only the root's range differs — or rejects both with the same number of "
                  "diagnostics (C19_paren_program_tokens, _accepted, _plain; the definition-order check never reads the root's range: "
                  'C19_check_definitions_root). Parentheses around one operand: the re-association step is proved (C19_paren_operand), the token-level '
                  'statement is checked on instances only.**',
         'note': 'Trusted: Lean kernel, standard axioms, the rewrite implementations in harness/src/prog.rs (each is validated on the unchanged tree).'},
 'C07': {'technique': 'Lean model of the whole packrat parser incl. error recovery and the three re-association passes (zero differences on 1.7M ops); Lean '
                      'proofs: every token consumed, left association of + - and * / chains of any length, parenthesised chains opaque, passes act on disjoint '
                      "families; Earley recogniser over grammar.y and the generator's own derivation trees as oracles on the implementation; Lean proof of "
                      'completeness of the packrat parser model w.r.t. the grammar (induction over segment length up the precedence tower, follow sets from an '
                      'extension law) and of unambiguity of the grammar',
         'level': "For the parser MODEL the property's iff is a theorem for every token sequence: sound, complete and unambiguous (details below); the model "
                  'is tied to parser.rs by the steps translator and the correspondence suite. **Soundness w.r.t. grammar.y is proved**: the productions of '
                  'grammar.y are regenerated into Lean on every run (Generated/Grammar.lean), and whenever the model parser accepts a token sequence without '
                  'recording an error, the sequence is derivable from the start symbol in that grammar (C07_parse_sound, C07_accepted_is_sentence: all 36 '
                  'functions, any length). Also proved for the model: a successful parse consumed all tokens and contains no error node; a right-nested chain '
                  'of atoms of any length and any mixture of + and - (resp. * and /) is rebuilt left-nested with operators and operands in order; a grouped '
                  "chain met with a pending accumulator is re-associated on its own (the repaired D8); the sums pass leaves product nodes' shape alone. Two "
                  'first formulations were refuted by the proof attempt and are kept next to their refutations. Correspondence: op `parse` (resolved term with '
                  'the source range of every node, or the ranges of the diagnostics in order) on every token sequence up to length 3 (4 thorough) over the '
                  'full alphabet, every grammar sentence up to 4 (5) tokens, generated programs with token edits, nesting families. Oracles: accepted => '
                  "sentence of grammar.y with exactly one derivation (Earley); generated sentence => accepted with the generator's tree. **Translator tie "
                  '(regenerated on every run):** extract/arms.py reads, for each of the 36 packrat functions of parser.rs, the macro invocations and calls in '
                  'order (try_return!/try_eval!/plain call/consume_token!/expect_token!/node built); for 33 of the 36 functions the body the model runs IS the '
                  'interpretation of the extracted row by a generic combinator of its shape (C07_parser_steps_regular: the 8 choice functions — alternatives '
                  'in order —, the 9 binary-operator functions — operand nonterminals, operator token, node — and the 5 keyword leaves; '
                  'C07_parser_steps_regular2: variable, literal, the two plain and four annotated binders, arrow, application, negation — every token kind, '
                  'every nonterminal called, node and `implicit` flag from the row); the 3 functions with recovery scans are compared with the rows the model '
                  'was written from (C07_parser_steps_irregular). **Unambiguity of grammar.y is a theorem (Lemmas/Unambiguous.lean): a token segment has at '
                  'most one parse tree from any of the 36 nonterminals (C07_unambiguous), by an extension law — two derivations from the same nonterminal and '
                  'start either end together with equal trees or the token after the shorter one lies in a fixed set that contains no separator of the '
                  'construct (C07_extension_law; atoms are prefix-free: C07_atom_end_unique); hence the tree the parser returns for an accepted input is THE '
                  'tree of that token sequence (C07_accepted_unique_tree). ** **Completeness is a theorem too (Lemmas/ParseComplete*.lean, statements in '
                  'Props/C07b.lean): C07_parse_complete — every sentence of the grammar (any token array that is a `term` segment with parse tree t) is '
                  'accepted by the parser model with exactly the tree t, every token consumed, no error recorded — ordered choice and the three '
                  'error-recovering functions included: on a sentence every alternative tried before the right one fails and recovery never commits wrongly; '
                  "C07_accepted_iff_sentence — the parser accepts a token array iff it is a sentence, and what it returns is the sentence's unique tree. With "
                  "soundness (C07_parse_sound), unambiguity (C07_unambiguous) and left association of chains (C07_*_left_assoc_fixed), the property's iff "
                  'holds for the model for every token sequence; the model is tied to parser.rs by the steps translator and the correspondence suite.**',
         'note': 'Trusted: Lean kernel, standard axioms, harness/driver, the Earley recogniser, the renderer of prog.rs.'},
 'C08': {'technique': 'Lean proof that the model resolver (name->depth map with insert/remove, as the Rust) is sound and complete w.r.t. a binder-stack '
                      'specification toDB, restores its map, and allocates fresh holes; resolver model tied to parser.rs by op `parse` (indices of every '
                      'variable); independent reference resolver on the implementation',
         'level': 'Proved for every surface tree, stack and state whose map describes the stack (and does not contain the placeholder, which `parse` '
                  "guarantees): if the resolver reports no error its output is exactly toDB's (every occurrence gets the index of the innermost binder of that "
                  'name, groups scope over all annotations, definitions and the body, `_` never binds and is a fresh hole, omitted annotations are holes '
                  'shifted out of their group); conversely if toDB succeeds the resolver reports nothing; the map is restored; hole ids only grow. Searched on '
                  "the implementation: the indices in parse()'s output for every generated program against an independent stack resolver, incl. keyword-prefix "
                  'and non-ASCII names and sibling scopes re-using names; unbound/shadowing perturbations must be rejected. **Added: resolution loses no '
                  'binding information — reading every index back through the binder stack gives the source program back up to layout (C08_roundtrip, '
                  "C08_toDB_injective: two programs with the same resolved tree are the same program up to layout, nested lets modulo gram's flattening, `x => "
                  '..` and `(x : _) => ..` identified — the pure-layout form is refuted by that pair, which the binary also prints alike); the scope clauses '
                  'stated directly: a parameter scopes over body / codomain only, not over its own annotation (C08_param_scope), all names of a group are in '
                  'scope in every annotation, definition and the body, with the index formula `k + (n - 1 - i)` (C08_group_scope), `_` never binds and denotes '
                  'a fresh hole per occurrence (C08_placeholder), and resolution fails exactly on an occurrence of an unbound name or a binder re-binding a '
                  'name bound outside or earlier in its group (C08_rejects: full iff with an inductive `IllScoped`, C08_rebind).**',
         'note': 'Trusted: Lean kernel, standard axioms, the specification toDB, harness/driver.'}}
