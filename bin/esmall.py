#!/usr/bin/env python3
"""E-small: every sentence of /repo/grammar.y with at most N tokens (IDENTIFIER in {x,y,_},
INTEGER_LITERAL in {0,1}), enumerated from the grammar (memoised by nonterminal and length), one
program per line, tokens separated by single spaces, TERMINATOR rendered as `;`."""
import os
import re, sys, functools
sys.setrecursionlimit(10000)

LEX = {"ASTERISK": ["*"], "BOOLEAN": ["bool"], "COLON": [":"], "DOUBLE_EQUALS": ["=="], "ELSE": ["else"],
       "EQUALS": ["="], "FALSE": ["false"], "GREATER_THAN": [">"], "GREATER_THAN_OR_EQUAL": [">="],
       "IDENTIFIER": ["x", "y", "_"], "IF": ["if"], "INTEGER": ["int"], "INTEGER_LITERAL": ["0", "1"],
       "LEFT_CURLY": ["{"], "LEFT_PAREN": ["("], "LESS_THAN": ["<"], "LESS_THAN_OR_EQUAL": ["<="], "MINUS": ["-"],
       "PLUS": ["+"], "RIGHT_CURLY": ["}"], "RIGHT_PAREN": [")"], "SLASH": ["/"], "TERMINATOR": [";"], "THEN": ["then"],
       "THICK_ARROW": ["=>"], "THIN_ARROW": ["->"], "TRUE": ["true"], "TYPE": ["type"]}

def load_grammar(path=None):
    path = path or os.path.join(os.environ.get("GRAM_REPO", "/repo"), "grammar.y")
    src = open(path).read()
    src = re.sub(r"/\*.*?\*/", " ", src, flags=re.S)
    tokens = re.findall(r"%token\s+(\w+)", src)
    body = src.split("%%")[1]
    rules = {}
    # rules are `name: alt | alt ... ;` (the `if` rule lacks its semicolon; split on `name:` heads)
    heads = list(re.finditer(r"(?m)^(\w+)\s*:", body))
    for k, m in enumerate(heads):
        end = heads[k + 1].start() if k + 1 < len(heads) else len(body)
        rhs = body[m.end():end].strip().rstrip(";").strip()
        alts = []
        for alt in rhs.split("|"):
            syms = [s for s in alt.split() if s != "%empty"]
            alts.append(syms)
        rules[m.group(1)] = alts
    return tokens, rules

def enumerate_sentences(n, start="term"):
    tokens, rules = load_grammar()
    tokset = set(tokens)
    @functools.lru_cache(maxsize=None)
    def gen(sym, length):
        """all token-text tuples of exactly `length` tokens derivable from sym"""
        if sym in tokset:
            return tuple((t,) for t in LEX[sym]) if length == 1 else ()
        out = []
        for alt in rules[sym]:
            out.extend(seq(tuple(alt), length))
        return tuple(dict.fromkeys(out))
    @functools.lru_cache(maxsize=None)
    def minlen(sym, depth=0):
        if sym in tokset: return 1
        if depth > 30: return 10**6
        return min(sum(minlen(s, depth + 1) for s in alt) for alt in rules[sym])
    @functools.lru_cache(maxsize=None)
    def seq(syms, length):
        if not syms:
            return ((),) if length == 0 else ()
        head, rest = syms[0], syms[1:]
        restmin = sum(minlen(s) for s in rest)
        out = []
        for k in range(minlen(head), length - restmin + 1):
            hs = gen(head, k)
            if not hs: continue
            rs = seq(rest, length - k)
            for h in hs:
                for r in rs:
                    out.append(h + r)
        return tuple(out)
    res = []
    for L in range(1, n + 1):
        res.extend(gen(start, L))
    return res

if __name__ == "__main__":
    n = int(sys.argv[1]); out = sys.argv[2]
    ss = enumerate_sentences(n)
    with open(out, "w") as f:
        for s in ss:
            f.write(" ".join(s) + "\n")
    print(f"esmall: {len(ss)} sentences with <= {n} tokens")
