# expect: value 7
convert = (f : int -> type) => (x : int) => (v : f (x * x)) => (g : f (x * x) -> f (x * x)) => g v
family = (n : int) => if n == 4 then int else bool
identity = (z : int) => z
convert family 2 7 identity
