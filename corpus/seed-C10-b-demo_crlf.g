# expect: value 12
# props: C05 C10
width = 3
height = 4
width * height
