# expect: rejected
# props: C03 C10
x = 1;;x
