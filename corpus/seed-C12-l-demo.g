# expect: rejected
# props: C03 C12
# Two type aliases, then three wrong definitions.
a = int
b = bool

# Error 1 (reported with and without the change): the codomains `bool` and `int` don't match.
f : (int -> int) = (x : int) => true

# Error 2: `true` is not an `a` (= `int`). This must be reported.
g : a = true

# No error here: `false` is a `b` (= `bool`).
h : b = false

g
