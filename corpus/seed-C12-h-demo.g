# expect: rejected
# props: C03 C12
# `g` must be rejected: its body returns `x : t`, but the annotation promises an `int`, and `t`
# is an abstract type.
f = (t : type) => (v : t) =>
  u = int
  g : (t -> int -> int) = x => y => x
  g v 0 + 1

f bool true
