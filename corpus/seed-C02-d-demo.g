# expect: value false
# props: C02 C05
# Mutually recursive definitions, plus a later definition whose body contains a
# parenthesized local `let` that calls back into the recursive group.
even : (int -> bool) = (n : int) => if n == 0 then true else odd (n - 1)
odd : (int -> bool) = (n : int) => if n == 0 then false else even (n - 1)
always : (int -> bool) = (n : int) => true
successor_is_even : (int -> bool) = (n : int) => (m = n + 1; even m)
successor_is_even 2
