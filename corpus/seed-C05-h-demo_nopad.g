# expect: value 6
# props: C05
# Variant without the leading `pad` definition: with the change the misplaced
# context lookup falls off the end of the context and the checker panics.
u : type = type
t : u = int
f : ((x : int) -> t) = (x : int) => x + 5

f 1
