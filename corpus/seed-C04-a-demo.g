# expect: value 3
# props: C04 C05
# `keep t x` returns x; its result type is written with a local definition.
keep : ((t : type) -> t -> (unit = 0; t)) = t => x => x

# Looks like a harmless wrapper around `keep`.
wrap = (a : type) => (b : type) => (y : a) => keep a y

wrap int bool 3
