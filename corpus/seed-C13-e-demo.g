# expect: rejected
# props: C03 C13
a = v 1
v : (int -> int) = (x : int) => c + x
c = 1 + 1
d = v 2
a + d
