# expect: accepted
# props: C05 C11
((t : type) => (y : t) => (x : t = y; x)) int
