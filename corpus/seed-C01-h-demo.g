# expect: rejected
# props: C01 C03
# A local group with a recursive type alias `u` (u = int -> u), a second
# alias `b`, and a function `f` of type `u` that returns itself. The type of
# the parenthesised group mentions the local alias `u`, so it is a
# let-expression that the checker has to normalize. `r 1 2` is `f` again
# (a function), so it must not be accepted as the condition of an `if`.
r = (
  u = int -> u
  b = bool
  f : u = (x : int) => f
  f
)

if r 1 2 then 10 else 20
