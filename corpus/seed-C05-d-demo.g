# expect: value 5
# props: C05
keep : ((a : type) -> a -> a) = (a : type) => (x : a) => (
  b : type = a
  y : b = x
  y
)
keep int 5
