# expect: value true
# props: C05 C06
# A type family used to make the type checker compute a comparison.
ty = (b : bool) => if b then int else bool

# The type checker accepts this only because it normalizes `3 <= 1 + 2` to `true` (so the
# annotation is `int`). Hence the checker's notion of equality says `3 <= 1 + 2` is `true`.
witness : ty (3 <= 1 + 2) = 7

# Running the very same comparison must therefore also produce `true`.
3 <= 1 + 2
