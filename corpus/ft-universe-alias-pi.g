# expect: accepted
u = type
t = u
(a : t) => (x : a) -> a
