# expect: value 4
# props: C05 C18
# The annotation of `x` mentions `t`, which is defined later in the same group of
# definitions, and `x` is then used underneath an extra binder (the lambda `y`).
x : t = 3
t = int
f = (y : int) => x + y
f 1
