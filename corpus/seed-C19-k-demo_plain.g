# expect: value true
# props: C05 C19
3 <= 3
