# expect: rejected
# props: C01 C03
# Two type-level functions that agree when `b` is true and differ only in the else branch.
t1 = (b : bool) => if b then int else bool
t2 = (b : bool) => if b then int else int

# Passing an `x : t1 b` where a `t2 b` is expected must be rejected: `b` is unknown here.
coerce = (b : bool) => (x : t1 b) => ((y : t2 b) => y) x

# `coerce false` has type `bool -> int`, so this would add one to `true`.
coerce false true + 1
