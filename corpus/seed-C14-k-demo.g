# expect: rejected
# props: C03 C14
total = 1 + 2
🇺🇸 total
