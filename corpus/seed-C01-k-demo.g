# expect: rejected
# props: C01 C03
# The share of each party of a total, where the second argument says whether the last party is present.
share : (int -> bool -> int) = (total : int) => (present : bool) =>
  total / present

share 10 true
