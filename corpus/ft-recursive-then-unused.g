# expect: value 24
double : (int -> int) = (x : int) => x * 2
factorial : (int -> int) = (x : int) => if x == 0 then 1 else x * factorial (x - 1)
unused = 0
factorial (double 2)
