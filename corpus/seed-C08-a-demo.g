# expect: value 2
# props: C05 C08
_ = 1
x = 2
x
