# expect: value 1
# props: C05 C19
# Original program P.
limit = 2
within : (int -> bool) = (n : int) => n <= limit + 1
if within 3 then 1 else 0
