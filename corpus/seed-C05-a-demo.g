# expect: value 5
# props: C05
# A type computed by recursion on an integer: `count n` is `int` for every `n`.
count : (int -> type) = (n : int) => if n <= 0 then int else count (n - 1)

# The identity function at `count n`
id_count : ((n : int) -> count n -> count n) = (n : int) => (x : count n) => x

# Same thing, but going through `id_count`
wrap : ((n : int) -> count n -> count n) = (n : int) => (x : count n) => id_count n x

wrap 3 5
