# expect: value 3
# props: C05 C12
# `a` is a local alias for the abstract type `t`, so a value of type `t` may be given the
# annotation `a`. This program is well-typed and evaluates to `3`.
f = (t : type) => (v : t) =>
  a = t
  y : a = v
  y

f int 3
