# expect: rejected
# props: C03 C07
(x : int then = 5; x + 1) * ((2 else))
