# expect: value 5
((t : type) => x => (y : t = x; y)) int 5
