# expect: rejected
t1 = (b : bool) => if b then int else bool
t2 = (b : bool) => if b then int else int
coerce = (b : bool) => (x : t1 b) => ((y : t2 b) => y) x
coerce false true + 1
