# expect: accepted
# props: C05 C11
# The result type of `pick` depends on its first argument through a conditional,
# and the `else` branch mentions the outer variable `t`.
(t : type) =>
(pick : (b : bool) -> (n : int) -> if b then int else t) =>
  pick true
