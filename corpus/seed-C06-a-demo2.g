# expect: rejected
# props: C03 C06
family = (b : bool) => if b then int else bool
witness : family (3 > 3) = 7
if 3 > 3 then 1 else 0
