f = (x : int) => 1 2
g = (a : type) => (b : type) => (c : type) => (h : int -> a) => if true then h else f
k : (int -> int) = f
0
