# expect: value 12
width = 3
height = 4
width * height
