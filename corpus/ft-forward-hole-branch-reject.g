# expect: rejected
g : ((a : type) -> a -> int) = (a : type) => (x : a) => if false then f else x
f = 5
g bool true + 1
