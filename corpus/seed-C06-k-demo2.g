# expect: rejected
# props: C03 C06
# `n - m` and `m - n` are different terms with different normal forms, so `h x` is
# ill-typed and the program must be rejected.
(p : int -> type) => (n : int) => (m : int) => (h : p (n - m) -> int) =>
  (x : p (m - n)) => h x
