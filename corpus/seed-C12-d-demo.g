# expect: rejected
# props: C03 C12
(
  a => (
    t = int
    k : t = 3
    if false then k else a
  )
) true
