# expect: rejected
# props: C03
# `limit > 10` is false (10 > 10), so `cell` is `bool`; `x + 1` and `bump 41` are ill-typed.
limit = 10
cell = if limit > 10 then int else bool
bump = (x : cell) => x + 1
bump 41
