# expect: rejected
# props: C03 C13
scale = 2
offset = 3
scale = 4
offset = 5
scale * 10 + offset
