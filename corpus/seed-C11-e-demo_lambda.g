# expect: value 50
# props: C05 C11
a = 2
b = 5
c = (x : int) => 100 / a
c 0
