# expect: value 7
# props: C05 C08
id = (_x : int) => _x
id 7
