# expect: value 8
# props: C04 C05
f : (int -> int) = (n : int) => if n == 0 then g 7 else f (n - 1)
g : (int -> int) = (n : int) => n + 1
h : (int -> bool) = (n : int) => n == 0
f 1
