# expect: value 3
f = (n : int) => (k : int) => n - 1 - (k * 2)
f 10 3
