# expect: value 1
limit = 10
if limit > 5 then 1 else 0
