# expect: value 28
# props: C02 C05
# A helper with a local two-definition group, called from a later definition
# under that definition's own binder.
scale : (int -> int) = (n : int) => (
  a = n + 1
  b = a * 2
  b
)

twice : (int -> int) = (m : int) => scale (m + 10)

twice 3
