# expect: value 20
# props: C02 C05
# Integer average of a range: the divisor is itself a compound expression, so it
# still has to be evaluated after the dividend has already become a value.
average : (int -> int -> int) = (lo : int) => (hi : int) =>
  (lo + hi) * (hi - lo + 1) / 2 / (hi - lo + 1)

average 10 30
