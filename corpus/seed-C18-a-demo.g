# expect: accepted
# props: C05 C18
# `t` is a local alias for `type`, and `u` is an unrelated definition that sits further out in the
# same scope. The codomain `c` of the pi type below has type `t`, which is only recognized as `type`
# by unfolding the definition of `t` in the context that includes the bound variable `x`.
u = int
t = type
(c : t) => (x : int) -> c
