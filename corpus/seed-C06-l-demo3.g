# expect: accepted
# props: C05 C06
# Conversion of an open term with its beta-reduct: the type of `x` beta-reduces to
# `p (n + 1 + 2)`, so `h x` is well-typed.
(p : int -> type) => (n : int) => (h : p (n + 1 + 2) -> int) =>
  (x : p (((m : int) => (a = 1; b = 2; m + a + b)) n)) => h x
