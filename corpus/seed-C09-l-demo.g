# expect: rejected
# props: C03 C09
x = 1
y = $é
x
