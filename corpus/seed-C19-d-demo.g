# expect: value 45
# props: C05 C19
scale = (x : int) => x * factor + offset
factor = 2 + 3
offset = factor * 2
first = scale 4

first + scale 1
