# expect: rejected
# props: C03
# `c` is an integer (its type `U` unfolds to `int`), so it cannot be used as
# the codomain of a function type. A sound checker must reject this program.
T = type
U = int
(c : U) => (x : int) -> c
