# expect: accepted
(p : int -> type) => (a : p (x = 1; y = 2; y)) => ((b : p (x = 2; x)) => 0) a
