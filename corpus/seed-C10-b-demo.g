# expect: value 12
# props: C05 C10
# The first line ends in a single trailing space (before the line break).
width = 3 
height = 4
width * height
