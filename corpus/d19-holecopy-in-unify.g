# D19 / KF-holecopy inside unify: the beta step of normalize_weak_head copies the unresolved hole (found by the proof attempt of C12_unify_sound)
const = (a : type) => ((b : type) => a) int
F = (t : type) => const t -> t
f : F _ = (x : int) => x + 1 > 0
f true
