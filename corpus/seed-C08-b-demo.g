# expect: value 3
# props: C05 C08
f : (int -> _) = (x : int) => x + 1
f 2
