# expect: accepted
# props: C05 C14
universe = type
(a : universe) -> a
