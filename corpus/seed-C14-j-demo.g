# expect: value 55
# props: C05 C14
# Sum of the integers from 0 to n
sum : (int -> int) = n =>
  if n == 0
  then 0
  else n + sum (n - 1)

total = sum 10
total
