# expect: value 2
# props: C05 C16
x = 1
(y = x + 1; x * y)
