# expect: rejected
# props: C03 C13
count = 3
scale = (Count : int) => COUNT * count
scale 2
