# expect: accepted
# props: C05
(vec : int -> type) =>
(n : int) =>
(mk : (k : int) -> vec k) =>
(use : vec (n / 2) -> int) =>
use (mk (n / (1 + 1)))
