# expect: rejected
# props: C03 C08
x = 1
y = 2
x = 40
x + y
