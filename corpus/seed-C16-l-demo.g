# expect: accepted
# props: C05 C16
vec = (n : int) => int
(n : int) -> vec (-n)
