# expect: accepted
# props: C05 C16
(f : int -> int -> int) => (g : int -> int) => (f (g (g 1))) (g 2)
