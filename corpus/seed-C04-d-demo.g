# expect: rejected
# props: C03 C04
# A type-level function: non-negative sizes are represented by `int`, negative
# ones by `bool`. The interesting input is the boundary `n == 0`.
repr : (int -> type) = (n : int) => if n >= 0 then int else bool

x : repr 0 = true

x
