# expect: value 10
# props: C02 C05
# Sum of the integers 0, 1, ..., n - 1, computed with an accumulating loop that stops as soon as
# the counter reaches the bound.
sum_below = (n : int) =>
  loop : (int -> int -> int) = (i : int) => (acc : int) =>
    if i >= n
    then acc
    else loop (i + 1) (acc + i)
  loop 0 0

sum_below 5
