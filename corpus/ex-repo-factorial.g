factorial : (int -> int) = x =>
  if x == 0
  then 1
  else x * factorial (x - 1)

factorial 30
