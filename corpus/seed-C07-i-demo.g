# expect: value true
# props: C05 C07
# Boolean negation, applied to a literal.
not = (b : bool) => if b then false else true

not false
