# expect: value 24
# props: C05 C19
# Same program with the two independent function definitions reordered.
factorial : (int -> int) = x =>
  if x == 0
  then 1
  else x * factorial (x - 1)

double : (int -> int) = x => x + x

factorial (double 2)
