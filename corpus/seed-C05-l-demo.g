# expect: value 3
# props: C05
r : int = (s : type = (t -> int); t : type = int; f : s = ((y : int) => y); f) 3
r
