# expect: value 214
# props: C02 C05
# A definition group in which one definition is bound to the placeholder `_`
# (its value is computed and then discarded), followed by a further definition.
scale = (x : int) => x * 2
limit = 100
_ = scale (limit * limit)
offset = 7
scale (limit + offset)
