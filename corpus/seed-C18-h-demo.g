# expect: value 5
# props: C05 C18
# A recursive, type-valued definition that mentions a variable of the
# enclosing context (`a`). The type of the group, `(x : f 2) -> f 2`, mentions
# `f`, so the checker has to normalise the closed term `f = ...; f 2` (under the
# context `a, y`) and must get the same answer as for `f 2` under the context
# `a, y, f := ...`, namely `a`.
g = (a : type) => (y : a) => (
  f : (int -> type) = n => if n == 0 then a else f (n - 1)
  (x : f 2) => x
) y

g int 5
