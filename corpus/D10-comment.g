x = 1 #
y = 2
x