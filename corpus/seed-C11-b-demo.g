# expect: value 5
# props: C05 C11
((t : type) => x => (y : t = x; y)) int 5
