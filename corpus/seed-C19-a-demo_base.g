# expect: value 40
# props: C05 C19
# Original program: average speed scaled by a factor (a `/` followed by a `*`).
distance = 100
hours = 5
factor = 2
distance / hours * factor
