# expect: value 0
# props: C05 C06
# A function that ignores its second argument.
first = (a : int) => (b : int) => a

# `first 1 2` and `first 1 3` both reduce to `1`, so `p (first 1 2)` and `p (first 1 3)` are the
# same type and `consume evidence` is well typed.
use = (p : int -> type) =>
      (evidence : p (first 1 2)) =>
      (consume : p (first 1 3) -> int) =>
        consume evidence

first 1 2 - first 1 3
