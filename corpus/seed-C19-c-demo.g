# expect: value 7
# props: C05 C19
eq = (a : type) => (x : a) => (y : a) => (p : a -> type) -> p x -> p y

refl : ((a : type) -> (x : a) -> eq a x x) = (a : type) => (x : a) => (p : a -> type) => (h : p x) => h

f : ((a : type) -> (x : a) -> eq a x x) = (a : type) => (x : a) =>
  y = x
  u = 1
  refl a y

f int 3 (z => int) 7
