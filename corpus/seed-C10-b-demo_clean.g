# expect: value 12
# props: C05 C10
# Same program without the trailing space.
width = 3
height = 4
width * height
