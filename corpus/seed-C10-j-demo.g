# expect: value 20
# props: C05 C10
# Pick one of two values.
choose = (b : bool) =>
  then_value = 10   # used when b holds
  else_value = 20   # used otherwise
  if b
  then then_value
  else else_value

choose false
