# expect: rejected
# props: C03 C04
# The annotation of `f` promises a function from `bool` (the group's last
# definition `b`) to `int`, but the lambda's own domain is a one-definition
# group whose only member is `int`.
f : ((a = int; b = bool; b) -> int) = (x : (a = int; a)) => x

f true
