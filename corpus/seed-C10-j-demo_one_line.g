# expect: value 20
# props: C05 C10
choose = (b : bool) => then_value = 10; else_value = 20; if b then then_value else else_value; choose false
