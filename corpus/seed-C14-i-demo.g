# expect: rejected
# props: C03 C14
# area of a square with side 3
area = 3²
area
