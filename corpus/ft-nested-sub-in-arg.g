# expect: value 10
f = (x : int) => x * 2
f (10 - 3 - 2)
