# expect: rejected
# props: C03 C06
# Closed program of type `int` built from demo2.g. The unmodified checker rejects it. With
# the change it is accepted (type `int`), and running it gets stuck on `true + 1`:
# `p (3 - 2)` is `int` but `p (2 - 3)` is `bool`.
f = (p : int -> type) => (n : int) => (m : int) => (h : p (n - m) -> int) =>
  (x : p (m - n)) => h x
f ((k : int) => if k == 1 then int else bool) 3 2 ((v : int) => v + 1) true
