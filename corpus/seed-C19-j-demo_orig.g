# expect: value 7
# props: C05 C19
# `pick` takes a type `a` and a value `x` whose type is left to inference. The two local functions
# `keep` and `const_x` are independent of each other.
pick = (a : type) => x =>
  keep = (u : int) => ((y : a) => y) x
  const_x = (z : int) => x
  ((w : a) => w) (const_x 0)

pick int 7
