# expect: accepted
# props: C05 C08
(x : (x : type) -> type) => x
