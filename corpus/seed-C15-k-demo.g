# expect: rejected
# props: C03 C15
inc = (x : int) => x + base
total = inc 1
base = 2 * 3
total
