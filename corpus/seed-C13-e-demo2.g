# expect: rejected
# props: C03 C13
a = c + 1
b = c + 2
c = 1 + 1
a + b
