# expect: value 40
distance = 100
hours = 5
factor = 2
distance / hours * (factor)
