# expect: rejected
# props: C03
# `g x` links the hole in the type of `g` to the hole that is the type of `x`;
# `f x` then solves that hole to the abstract type `a`, so `g : a -> int`.
# The call `g (f x)` passes an `int` where an `a` is expected and must be rejected.
(a : type) =>
(x : _) =>
(f : a -> int) =>
(g : _ -> int) =>
  u = g x
  t = int
  g (f x)
