# expect: rejected
# props: C03 C04
same = (a0 : type) => (p0 : a0) => (q0 : a0) => p0
snd = (a1 : type) => (p1 : a1) => (q1 : bool) => q1

f = (t : type) => (x : t) => g => (
  a = bool
  b = 0
  if false then g else snd t (same t x g) false
)

f int 1 2
