# expect: value 2
# props: C05 C16
_ : _ = 1; 2
