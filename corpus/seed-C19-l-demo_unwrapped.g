# expect: accepted
# props: C05 C19
# Q: like demo.g (different bound names `x` / `y`), but without the identity wrapper around `y`.
(vec : int -> type) =>
(f : ((x : int) -> vec x) -> int) =>
(g : (y : int) -> vec y) =>
f g
