# expect: rejected
# props: C03 C04
# A definition group in which the second definition is recursive and is used
# in the type of a later definition.
inner = (
  always_bool : (int -> type) = (n : int) => bool
  pick : (int -> type) = (n : int) => if n == 0 then int else pick (n - 1)
  x : pick 2 = 5
  x
)

# `inner` has type `pick 2`, which computes to `int`, so this must be rejected.
result : bool = inner
result
