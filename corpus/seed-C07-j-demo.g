# expect: value 6
# props: C05 C07
# A local definition with a type annotation, scoped by parentheses.
three = (one : int = 1; one + one) + 1

three * 2
