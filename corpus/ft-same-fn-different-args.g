# expect: value 0
first = (a : int) => (b : int) => a
p : (int -> type) = (n : int) => int
conv = (x : p (first 1 2)) => ((y : p (first 1 3)) => y) x
conv 0
