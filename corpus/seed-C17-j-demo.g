# expect: value 0
# props: C05 C17
# C17 demo: a definition whose right-hand side is a parenthesized group with a definition of the same shape, nested 40 deep
x0 = (x1 = (x2 = (x3 = (x4 = (x5 = (x6 = (x7 = (x8 = (x9 = (x10 = (x11 = (x12 = (x13 = (x14 = (x15 = (x16 = (x17 = (x18 = (x19 = (x20 = (x21 = (x22 = (x23 = (x24 = (x25 = (x26 = (x27 = (x28 = (x29 = (x30 = (x31 = (x32 = (x33 = (x34 = (x35 = (x36 = (x37 = (x38 = (x39 = (x40 = 0; x40); x39); x38); x37); x36); x35); x34); x33); x32); x31); x30); x29); x28); x27); x26); x25); x24); x23); x22); x21); x20); x19); x18); x17); x16); x15); x14); x13); x12); x11); x10); x9); x8); x7); x6); x5); x4); x3); x2); x1)
x0
