# expect: rejected
# props: C03
# `p` is a type family indexed by integers; `x` and `y` are abstract integers, so the
# differences `x - y` and `y - x` are stuck and are NOT definitionally equal.
# `f` expects a `p (x - y)` but is given a `p (y - x)`: this must be rejected.
(p : int -> type) =>
(x : int) =>
(y : int) =>
(f : p (x - y) -> int) =>
(v : p (y - x)) =>
  f v
