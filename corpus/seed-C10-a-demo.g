# expect: value 1
# props: C05 C10
# The body of the definition starts on its own line with `if`.
limit = 10
if limit > 5 then 1 else 0
