# expect: value 6
# props: C02 C05
# A self-recursive definition that also calls a helper defined later in the
# same definition group.
sum_doubles : (int -> int) = n =>
  if n <= 0
  then 0
  else double (n - 1) + sum_doubles (n - 1)

double : (int -> int) = n => n * 2

sum_doubles 3
