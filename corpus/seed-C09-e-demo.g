# expect: accepted
# props: C05 C09
café = type
café
