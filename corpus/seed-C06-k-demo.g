# expect: accepted
# props: C05 C06
# The type of `x` reduces to `p (n - 2)` (the subtrahend `1 + 1` normalises to `2`), so the
# application `h x` is well-typed and the program must be accepted.
(p : int -> type) => (n : int) => (h : p (n - 2) -> int) =>
  (x : p (n - (1 + 1))) => h x
