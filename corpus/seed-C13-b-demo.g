# expect: rejected
# props: C03 C13
total = double 1 + triple 1 + base
double = x => x * base
triple = y => y + base
base = 2 + 3
total
