# expect: rejected
# props: C03 C08
(x : int) => (_ : int) => _y
