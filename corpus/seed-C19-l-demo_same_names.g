# expect: accepted
# props: C05 C19
# Program P: the bound variable of g's dependent function type is called `x`, like the one in
# the type that f expects.
(vec : int -> type) =>
(f : ((x : int) -> vec x) -> int) =>
(g : (x : int) -> vec (((z : int) => z) x)) =>
f g
