# expect: value 3
# props: C05 C12
# The same comparison in the other direction (alias on the left, abstract variable on the right).
# This one is accepted both with and without the change.
f = (t : type) =>
  a = t
  (w : a) =>
    y : t = w
    y

f int 3
