# expect: rejected
# props: C03 C15
a = int

# the binder {a : type} below clashes with the definition above
idé : ({a : type} -> a -> a) = {b : type} => (x : b) => x

idé
