# expect: value 1
# props: C05 C16
if x : bool = true; x then 1 else 2
