# expect: rejected
# props: C01 C03
cast = (f : int -> type) => (x : int) => (y : int) => (v : f (x + x)) => (
  w : f (y + y) = v
  w
)
fam = (n : int) => if n == 0 then int else bool
if cast fam 0 1 5 then 1 else 2
