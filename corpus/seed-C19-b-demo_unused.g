# expect: value 24
# props: C05 C19
# demo_base.g with an unused definition added at the end of the group.
double : (int -> int) = x => x + x

factorial : (int -> int) = x =>
  if x == 0
  then 1
  else x * factorial (x - 1)

unused = 0

factorial (double 2)
