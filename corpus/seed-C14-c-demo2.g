# expect: rejected
# props: C03 C14
(a : type) -> (x : a) -> x
