# expect: accepted
# props: C05 C13
# Three assumptions whose types are only partially written down. The holes are
# filled in by unification when `k` is applied to `p` and then to `q`.
(p : (a : type) -> a -> _) =>
(q : (b : type) -> _ -> b) =>
(k : ((_ : type) -> _ -> _) -> int) =>
  k p + k q
