# expect: value 6
# props: C05
# `u` is an alias for the universe, `t : u` is a type whose own type is only
# *definitionally* (not literally) `type`. `t` is then used as the codomain of
# a function type.
pad : int = 0
u : type = type
t : u = int
f : ((x : int) -> t) = (x : int) => x + 5

f 1
