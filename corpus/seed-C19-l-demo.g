# expect: accepted
# props: C05 C19
# P with the bound variable `x` of g's dependent function type consistently renamed to `y`
# (a C19 rewrite).
(vec : int -> type) =>
(f : ((x : int) -> vec x) -> int) =>
(g : (y : int) -> vec (((z : int) => z) y)) =>
f g
