# The polymorphic identity function
id = a => (x : a) => x

id int 3
