# expect: value 3
# props: C02 C05
# Left-associative subtraction chain whose last operand is parenthesized.
f : (int -> int -> int) = n => k => n - 1 - (k * 2)

f 10 3
