# expect: rejected
# props: C03 C08
y => (x : x) => x
