# expect: value 10
# props: C05 C07
f = (x : int) => x * 2
f (10 - 3 - 2)
