# expect: value 8
# props: C05 C19
# Same program as demo_orig.g, except that the first occurrence of `n` is wrapped in an immediately
# applied annotated identity function.
check = (vec : int -> type) => (f : int -> int) => (n : int) =>
  (v : vec (f (((z : int) => z) n) - 1)) => (g : vec (f n - 1) -> int) => g v

check ((k : int) => int) ((k : int) => k * 2) 5 7 ((r : int) => r + 1)
