# expect: accepted
# props: C05 C16
(t : type) -> (w : (((x : type) => int) t) = 1; int)
