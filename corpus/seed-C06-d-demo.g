# expect: rejected
# props: C03 C06
# `(a = 1; a)` evaluates to 1 and `(c = 1; d = 2; d)` evaluates to 2, so `p 1` and `p 2` are
# different types and this identity coercion must be REJECTED by the checker.
coerce : ((p : int -> type) -> p (a = 1; a) -> p (c = 1; d = 2; d)) = p => x => x

0
