# expect: rejected
# props: C03 C04
# Applies `g` to `v`, for an arbitrary type family `f` indexed by an integer.
# The index of `v` is `x * x`, while `g` works at index `y * y`.
convert =
  (f : int -> type) =>
  (x : int) => (y : int) =>
  (v : f (x * x)) =>
  (g : f (y * y) -> f (y * y)) =>
    g v

# A concrete family: family 4 = int, and every other index gives bool.
family = (n : int) => if n == 4 then int else bool

# family (2 * 2) = int, so 7 is a fine `v`; family (3 * 3) = bool.
identity = (z : bool) => z
identity (convert family 2 3 7 identity)
