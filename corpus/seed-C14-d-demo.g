# expect: rejected
# props: C03 C14
h = y => (z : h = y; 0)
h
