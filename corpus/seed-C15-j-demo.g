# expect: rejected
# props: C03 C15
# A stray symbol: `$` carrying a combining acute accent (U+0301).
α = 1
α + $́ + 2
