# expect: rejected
# props: C03 C18
# Same shape as demo.g, but the argument has the WRONG type (`a` instead of
# `b`), so this program must be rejected.
f = (a : type) => (b : type) => (z : a) => (
  t = b
  u = 1
  (x : t) => x
) z

f int bool 3
