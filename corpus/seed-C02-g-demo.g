# expect: value 1
# props: C02 C05
# Parity test written with truncating division: n is even iff n / 2 * 2 == n.
is_even = (n : int) => if n / 2 * 2 == n then 1 else 0

is_even 10
