# expect: rejected
# props: C03 C12
# A type family indexed by integers and a way to inhabit every member of it.
(p : int -> type) =>
(mk : (n : int) -> p n) =>

# `mk (x = 1; y = 2; y)` has type `p 2`, but the annotation says `p 1`. This must be rejected.
v : p (x = 1; x) = mk (x = 1; y = 2; y)

v
