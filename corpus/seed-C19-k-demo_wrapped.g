# expect: value true
# props: C05 C19
# `3 <= 3` with the right operand wrapped in an immediately applied annotated identity function
# (a C19 rewrite of the program `3 <= 3`, which prints `true`).
3 <= ((y : int) => y) 3
