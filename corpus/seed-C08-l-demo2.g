# expect: rejected
# props: C03 C08
f = y => y + 1; (y = 2; f y)
