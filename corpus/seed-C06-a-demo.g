# expect: value 0
# props: C05 C06
# A type family computed from a Boolean.
family = (b : bool) => if b then int else bool

# `3 > 3` is false, so `family (3 > 3)` is `bool` and `true` inhabits it.
witness : family (3 > 3) = true

# The program itself has ground type: running it must agree with how the checker normalizes it.
if 3 > 3 then 1 else 0
