# expect: value 4
fam = (b : bool) => if b then int else bool
keep = (b : bool) => (x : fam b) => x
v : fam true = 3
keep true v + 1
