# expect: value 1
# props: C05 C16
if (x = true; x) then 1 else 2
