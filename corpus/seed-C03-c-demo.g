# expect: rejected
# props: C03
# `2 > 2` is false, so `x : bool` and `x + 1` is ill-typed.
(x : if 2 > 2 then int else bool) => x + 1
