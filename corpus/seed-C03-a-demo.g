# expect: rejected
# props: C03
# `g` and `f` live in one (mutually recursive) definition group and `f` has no
# type annotation. Inside `g`, the conditional returns either `f` (which is later
# defined to be the integer 5) or the argument `x`, whose type is the bound type
# variable `a`. The branches have types `int` and `a`, which are not
# definitionally equal, so `g` does not have the annotated type
# `(a : type) -> a -> int`. A sound checker must reject this program.
g : ((a : type) -> a -> int) = (a : type) => (x : a) => if false then f else x
f = 5
g bool true + 1
