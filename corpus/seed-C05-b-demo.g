# expect: value 42
# props: C05
# A function that refers to a constant defined after it
scale : (int -> int) = (x : int) => x * factor

# A constant that has to be computed (it is not a value yet)
factor : int = 2 + 1

# A use of `scale`, which happens after `factor` has been evaluated
result : int = scale 14

result
