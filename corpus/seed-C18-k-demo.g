# expect: value 6
# props: C05 C18
# `num` is an alias for the variable `nat` (which in turn stands for `int`).
# It is used one binder deeper than where it was defined, and the checker has
# to unfold it there (to see that `x + five` adds two integers).
nat = int
five = 5
num = nat
f = (x : num) => x + five

f 1
