# expect: value true
# props: C05 C18
# A two-definition `let` nested under two binders. The type of the group
# mentions its FIRST definition (`t`), which refers to the innermost outer
# variable (`b`).
f = (a : type) => (b : type) => (y : b) => (
  t = b
  u = 1
  (x : t) => x
) y

f int bool true
