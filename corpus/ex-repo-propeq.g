# The formation rule for propositional equality
(eq : (a : type) -> (x : a) -> (y : a) -> type) =>

# The introduction rule for propositional equality
(refl : (a : type) -> (x : a) -> eq a x x) =>

# The elimination rule for propositional equality
(eq_ind : (a : type) ->
          (x : a) ->
          (p : a -> type) ->
          p x ->
          (y : a) ->
          eq a x y ->
          p y) =>

# A proof that propositional equality is symmetric
eq_symm : (
  (a : type) ->
  (x : a) ->
  (y : a) ->
  eq a x y ->
  eq a y x
) =
  a =>
  (x : a) =>
  (y : a) =>
  (x_equals_y : eq a x y) =>
    motive = (z : a) => eq a z x
    x_equals_x = refl a x
    eq_ind a x motive x_equals_x y x_equals_y

# A proof that propositional equality is transitive
eq_trans : (
  (a : type) ->
  (x : a) ->
  (y : a) ->
  (z : a) ->
  eq a x y ->
  eq a y z ->
  eq a x z
) =
  a =>
  (x : a) =>
  (y : a) =>
  (z : a) =>
  (x_equals_y : eq a x y) =>
  (y_equals_z : eq a y z) =>
    motive = (w : a) => eq a w z
    y_equals_x = eq_symm a x y x_equals_y
    eq_ind a y motive y_equals_z x y_equals_x

type
