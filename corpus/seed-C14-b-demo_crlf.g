# expect: rejected
# props: C03 C14
f = (1
2
