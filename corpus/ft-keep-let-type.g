# expect: accepted
keep : ((t : type) -> t -> (unit = 0; t)) = t => x => x
wrap = (a : type) => (b : type) => (y : a) => keep a y
wrap int bool 3
