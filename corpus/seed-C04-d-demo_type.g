# expect: accepted
# props: C04 C05
# The type that `gram check demo.g` reports for the program, as a program of its own.
repr : (int -> type) = (n : int) => if n >= 0 then int else bool

repr 0
