# expect: value 2
_ = 1
x = 2
x
