factorial : int -> int = (x : int) =>
  if x == 0
  then 1
  else x * factorial (x - 1)

factorial 5