t = int -> t
f : t = (x : int) => f
f 1 2 3
