# expect: value 2
# props: C05 C06
# The checker must agree with the evaluator that the let-block in the annotation below is 2
# (the same block is the program's result, so `gram run` prints what the evaluator thinks).
same : ((p : int -> type) -> p 2 -> p (
  fact2 : (int -> int) = n => if n == 0 then 1 else n * fact2 (n - 1)
  bump2 : (int -> int) = n => n + 100
  fact2 2
)) = p => x => x

fact : (int -> int) = n => if n == 0 then 1 else n * fact (n - 1)
bump : (int -> int) = n => n + 100
fact 2
