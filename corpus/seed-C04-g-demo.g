# expect: rejected
# props: C03 C04
const = (n : int) => bool
fst = (a : bool) => (b : int) => a
k = x => (n : int) => (y : const n) => fst (if false then y else x) (x + 1)
k 5 0 true
