# expect: value 70
# props: C05
fam : (int -> type) = (n : int) => (
  lo : int = 0
  hi : int = 10
  if n < hi then (if n >= lo then int else bool) else bool
)
k : int = 5
x : fam k = 70
x
