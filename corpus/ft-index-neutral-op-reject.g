# expect: rejected
convert = (f : int -> type) => (x : int) => (y : int) => (v : f (x * x)) => (g : f (y * y) -> f (y * y)) => g v
family = (n : int) => if n == 4 then int else bool
identity = (z : bool) => z
identity (convert family 2 3 7 identity)
