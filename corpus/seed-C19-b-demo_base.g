# expect: value 24
# props: C05 C19
# Original program: two independent function definitions in one group.
double : (int -> int) = x => x + x

factorial : (int -> int) = x =>
  if x == 0
  then 1
  else x * factorial (x - 1)

factorial (double 2)
