# expect: rejected
# props: C03 C14
(1 
2)
