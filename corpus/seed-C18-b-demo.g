# expect: rejected
# props: C03 C18
# This program is rejected either way: `g` applies a function expecting `int -> int` to an
# `int -> bool`. The only genuine error is that one. The rest of the program is fine (`b` unfolds
# to `int`), so no other error should be reported.
a = int
b = a
g = ((f : int -> int) => f) ((x : int) => true)
(y : b) => y + 1
