# expect: value 45
# props: C05 C19
factor = 2 + 3
offset = factor * 2
scale = (x : int) => x * factor + offset
first = scale 4

first + scale 1
