# expect: value 42
scale : (int -> int) = (x : int) => x * factor
factor : int = 2 + 1
result : int = scale 14
result
