# expect: rejected
# props: C03 C10
x = 1;;y = x + 1;;y
