# expect: value 0
# props: C05 C17
t = int -> int -> int -> int -> int -> int -> int -> int -> int -> int -> int -> int -> int -> int -> int -> int -> int -> int -> int -> int -> int -> int -> int -> int -> int -> int -> int -> int -> int -> int -> int -> int -> int -> int -> int -> int -> int
0
