# expect: value 8
# props: C05 C19
# Same program as demo_orig.g, except that the first occurrence of `n` (in the type of `v`) is
# wrapped in `if true then .. else ..`.
check = (vec : int -> type) => (f : int -> int) => (n : int) =>
  (v : vec (f (if true then n else 0) - 1)) => (g : vec (f n - 1) -> int) => g v

check ((k : int) => int) ((k : int) => k * 2) 5 7 ((r : int) => r + 1)
