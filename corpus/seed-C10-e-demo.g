# expect: value 42
# props: C05 C10
# A definition with a trailing comment on the same line.
double = (x : int) => x + x  # doubles its argument
double 21
