# expect: value 5
# props: C05 C18
# `b` is a local alias for the type parameter `a`. The definition `y` is annotated with the
# alias, but its inferred type is the bare parameter `a`.
f = (a : type) => (x : a) => (
  b = a
  y : b = x
  y
)

f int 5
