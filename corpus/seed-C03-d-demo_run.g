# expect: rejected
# props: C03
((t : type) => (
  a = int
  b = t
  (x : b) => x
) 3) bool
