# expect: value 40
# props: C05 C19
# Same program with redundant parentheses around the last operand of the chain.
distance = 100
hours = 5
factor = 2
distance / hours * (factor)
