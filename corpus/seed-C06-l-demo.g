# expect: value 15
# props: C05 C06
# `v` is 5 + 1 + 2 = 8. The evaluator computes it when the program runs; the checker's
# normalizer computes it to see that the annotation of `w` is `int`. Expected output: 15.
c = 5
d = 100
v = ((m : int) => (a = 1; b = 2; m + a + b)) c
w : (if v == 8 then int else bool) = 7
w + v
