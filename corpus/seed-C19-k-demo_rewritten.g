# expect: value 1
# props: C05 C19
# P with the subexpression `limit + 1` named by a definition (a C19 rewrite).
limit = 2
within : (int -> bool) = (n : int) => (bound = limit + 1; n <= bound)
if within 3 then 1 else 0
