# expect: value 2
# props: C05 C10
α = 1
β = α 
β + 1
