# expect: value false
# props: C05 C08
# Mutual recursion where the rest of the let chain happens to be parenthesized.
even : (int -> bool) = n => if n == 0 then true else odd (n - 1)
(
  odd : (int -> bool) = n => if n == 0 then false else even (n - 1)
  even 7
)
