# expect: value 4
# props: C05 C07
6 * 2 / (1 + 2)
