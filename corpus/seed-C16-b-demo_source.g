# expect: value 2
# props: C05 C16
_ = 1; 2
