# expect: rejected
# props: C03 C09
٣ = type
٣
