# expect: rejected
# props: C03 C06
# Ill-typed variant: `v` is 8, so the annotation of `w` is `bool`, and `7` does not fit.
# Must be rejected.
c = 5
d = 100
v = ((m : int) => (a = 1; b = 2; m + a + b)) c
w : (if v == 103 then int else bool) = 7
w + v
