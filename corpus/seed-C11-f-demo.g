# expect: rejected
# props: C03 C11
f = x => (y : type) =>
  z : (int -> (t : type = y; t)) = x
  z

f
