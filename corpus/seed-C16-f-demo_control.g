# expect: accepted
# props: C05 C16
(x : int) => (y : int) => -x * y
