# expect: rejected
# props: C03 C06
# Same coercion as demo.g, now used to turn the integer 5 into a "bool". If the checker accepts
# this, evaluation gets stuck on `if 5 then 10 else 20`.
coerce : ((p : int -> type) -> p (a = 1; a) -> p (c = 1; d = 2; d)) = p => x => x
family : (int -> type) = n => if n == 1 then int else bool
b : bool = coerce family 5

if b then 10 else 20
