# expect: rejected
# props: C03 C14
x : (Integer = 3; x
