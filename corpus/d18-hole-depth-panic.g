# D18 / KF-holedepth: gram check panics (index out of bounds in normalize_weak_head); found by the proof attempt of C14_infer_no_panic
((f : int -> _) => (a : type) => ((h : int -> a) => 0) f) ((z : int) => 0)
