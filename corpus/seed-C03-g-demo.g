# expect: rejected
# props: C03
# `f` uses a one-definition group as a local type alias in its domain.
f = (
  a = int
  (y : a) => y + 1
)

# `h` uses a two-definition group; its domain is the *second* alias, `bool`.
h = (
  a = int
  b = bool
  (z : b) => if z then 1 else 0
)

# The branches have types `int -> int` and `bool -> int`, which do not match.
(if false then f else h) 3
