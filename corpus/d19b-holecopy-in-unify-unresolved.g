# D19 / KF-holecopy inside unify, unresolved hole left: every use makes a new copy
const = (a : type) => ((b : type) => a) int
x : const _ = 5
y : bool = x
if y then 1 else 2
