# expect: accepted
((t : type) => (y : t) => (x : t = y; x)) int
