x = 1 # é
y = 2
x + y