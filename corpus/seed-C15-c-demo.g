# expect: rejected
# props: C03 C15
limit = 10
flag : bool = -limit
if flag then 1 else 2
