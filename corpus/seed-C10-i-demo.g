# expect: rejected
# props: C03 C10
x = 1;  # an explicit terminator at the end of the line
x
