# expect: accepted
# props: C05 C11
# A dependent function whose result type mentions its first argument inside a
# lambda that sits below a second pi binder.
(p : (int -> int) -> type) =>
(f : (n : int) -> (u : int) -> p (m => n)) =>
(j : int) =>
(k : int) =>
(extra : int) =>
  r : p (m => k) = f k 0
  r
