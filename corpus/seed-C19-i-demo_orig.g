# expect: value 8
# props: C05 C19
# A function over a family of types indexed by an integer expression.
check = (vec : int -> type) => (f : int -> int) => (n : int) =>
  (v : vec (f n - 1)) => (g : vec (f n - 1) -> int) => g v

check ((k : int) => int) ((k : int) => k * 2) 5 7 ((r : int) => r + 1)
