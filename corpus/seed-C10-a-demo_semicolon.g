# expect: value 1
# props: C05 C10
# Same program with the separating line break replaced by `;`.
limit = 10; if limit > 5 then 1 else 0
