# expect: rejected
# props: C03 C14
# The share of each part should be a number, but the annotation says otherwise.
parts = 3
share : bool = 100 * parts / (parts + 1)
share
