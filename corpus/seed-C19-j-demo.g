# expect: value 7
# props: C05 C19
# Same program as demo_orig.g, except that the two independent local function definitions `keep`
# and `const_x` have been swapped.
pick = (a : type) => x =>
  const_x = (z : int) => x
  keep = (u : int) => ((y : a) => y) x
  ((w : a) => w) (const_x 0)

pick int 7
