# expect: rejected
# props: C03 C15
# The condition of the conditional is not a Boolean.
x = 5
if ((x)) + 2 then 3 else 4
