# expect: value 42
# props: C05
# Same as demo.g, but the definition the body type depends on comes FIRST in
# the group: accepted with and without the change.
f : ((p : int -> type) -> (q : (n : int) -> p n) -> (z : int) -> p (z + 1)) =
  (p : int -> type) =>
  (q : (n : int) -> p n) =>
  (z : int) =>
    m : int = z + 1
    k : int = 3
    q m

f ((n : int) => int) ((n : int) => n * 2) 20
