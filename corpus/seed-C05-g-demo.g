# expect: value 42
# props: C05
# A fully annotated dependent function. Its body is a local let group with two
# definitions; the type of the body (`p m`) mentions the *second* definition,
# and that definition mentions the enclosing parameter `z`.
f : ((p : int -> type) -> (q : (n : int) -> p n) -> (z : int) -> p (z + 1)) =
  (p : int -> type) =>
  (q : (n : int) -> p n) =>
  (z : int) =>
    k : int = 3
    m : int = z + 1
    q m

f ((n : int) => int) ((n : int) => n * 2) 20
