# expect: rejected
# props: C01 C03
f = (a : type) => (x : _) => (
  g = (b : type) => x
  y : a = x
  g bool
)
if f int 3 then 1 else 2
