# expect: rejected
# props: C03 C15
double = (n : int) => n + n   
flag = true  

double 3 + flag
