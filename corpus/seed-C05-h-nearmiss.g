# expect: value 6
# props: C05
# Same as demo.g, but `t` is declared with the literal universe `type` instead
# of the alias `u`: accepted with and without the change.
pad : int = 0
u : type = type
t : type = int
f : ((x : int) -> t) = (x : int) => x + 5

f 1
