# expect: rejected
# props: C03
# A polymorphic identity function. The type of its second argument is written
# with a local definition (an unused alias `u`) in front of the type argument `t`.
f : ((t : type) -> (u = int; t) -> t) = (t : type) => (x : t) => x

# `f a` has type `a -> a`, so passing `y : b` must be rejected. If it is accepted, `cast` turns
# a value of any type `b` into a value of any other type `a`.
cast = (a : type) => (b : type) => (y : b) => f a y

cast int bool true + 1
