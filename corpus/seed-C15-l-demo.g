# expect: rejected
# props: C03 C15
# Maße des Rechtecks
breite = 4
größe = 3; fläche = größe * true
fläche + breite
