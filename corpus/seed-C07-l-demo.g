# expect: rejected
# props: C03 C07
x = 3; x;
