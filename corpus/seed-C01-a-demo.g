# expect: rejected
# props: C01 C03
# `x` is not a function, so it is evaluated eagerly when the group is entered. Its
# definition calls `f`, and `f` reads `x` back: `x` depends on itself through `f`.
f : (int -> int) = (n : int) => x + n
x : int = f 1
x
