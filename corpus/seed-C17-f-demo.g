# expect: rejected
# props: C03 C17
# C17 demo: a conditional without then/else inside nested parenthesized arguments.
f = (a : int) => a

f (f (f (f (f (f (f (f (f (f (f (f (f (f (f (f (f (f (f (f (f (f (if true))))))))))))))))))))))
