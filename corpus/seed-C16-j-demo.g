# expect: value 6
# props: C05 C16
6 * (3 / 2)
