# expect: value 41
# props: C05 C17
# C17 demo: nested applications whose last argument is parenthesized.
f = (a : int) => (b : int) => a + b

f 1 (f 1 (f 1 (f 1 (f 1 (f 1 (f 1 (f 1 (f 1 (f 1 (f 1 (f 1 (f 1 (f 1 (f 1 (f 1 (f 1 (f 1 (f 1 (f 1 (f 1 (f 1 (f 1 (f 1 (f 1 (f 1 (f 1 (f 1 (f 1 (f 1 (f 1 (f 1 (f 1 (f 1 (f 1 (f 1 (f 1 (f 1 (f 1 (f 1 (1))))))))))))))))))))))))))))))))))))))))
