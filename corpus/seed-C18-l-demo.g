# expect: rejected
# props: C03 C18
# This program is ill-typed (an implicit lambda is used where an explicit one
# is expected), so it must be rejected with ordinary type errors.
(p : (int -> int) -> type) =>
(e : p ((x : int) => x)) =>
(k : p ({y : int} => y) -> int) =>
  k e + k e
