# expect: rejected
# props: C03 C06
# Two type families computed by a conditional. They agree on `true` but not on `false`.
ty1 = (b : bool) => if b then int else bool
ty2 = (b : bool) => if b then int else type

f = (b : bool) => (x : ty1 b) => x

# This must be rejected: `x` has type `ty2 b`, but `f b` expects a `ty1 b`, and for an unknown `b`
# those two types are different (`if b then int else bool` versus `if b then int else type`).
g = (b : bool) => (x : ty2 b) => f b x

# If `g` is (wrongly) accepted, the checker believes this is an `int`, although `g false int`
# evaluates to the type `int` itself.
g false int + 1
