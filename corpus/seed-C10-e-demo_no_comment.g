# expect: value 42
# props: C05 C10
# The same program with the trailing comment removed.
double = (x : int) => x + x
double 21
