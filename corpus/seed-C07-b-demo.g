# expect: rejected
# props: C03 C07
1 == 1 == 1
