# expect: value 12
sum_doubles : (int -> int) = (n : int) => if n <= 0 then 0 else double n + sum_doubles (n - 1)
double : (int -> int) = (k : int) => k * 2
sum_doubles 3
