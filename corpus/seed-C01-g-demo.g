# expect: value true
# props: C01 C05
# Mutually recursive parity functions. `odd` keeps its predecessor in a local
# definition and calls `even` from the body of that local group.
even : (int -> bool) = n => if n == 0 then true else odd (n - 1)
odd : (int -> bool) = n =>
  m = n - 1
  if n == 0 then false else even m

odd 3
