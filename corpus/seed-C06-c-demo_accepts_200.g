# expect: rejected
# props: C03 C06
# Mirror image of demo.g: this must be REJECTED (the block is 2, not 200).
wrong : ((p : int -> type) -> p 200 -> p (
  fact2 : (int -> int) = n => if n == 0 then 1 else n * fact2 (n - 1)
  bump2 : (int -> int) = n => n + 100
  fact2 2
)) = p => x => x

0
