# expect: accepted
# props: C05 C10
id = {a : (t = type; t)} => (x : a) => x
id
