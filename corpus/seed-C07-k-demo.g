# expect: value 4
# props: C05 C07
8 / (4 / 2)
