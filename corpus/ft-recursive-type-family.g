# expect: value 5
count : (int -> type) = (n : int) => if n <= 0 then int else count (n - 1)
id_count = (n : int) => (x : count n) => x
wrap = (n : int) => (x : count n) => id_count n x
wrap 3 5
