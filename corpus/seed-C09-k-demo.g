# expect: value 7
# props: C05 C09
# The two operands are separated by U+3000 IDEOGRAPHIC SPACE.
10　-3
