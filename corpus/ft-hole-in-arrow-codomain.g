# expect: value 3
f : (int -> _) = (x : int) => x + 1
f 2
