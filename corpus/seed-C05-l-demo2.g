# expect: value 6
# props: C05
r : int = (fam : (int -> type) = ((n : int) => if n == 0 then int else fam (n - 1)); x : fam 2 = 5; x) + 1
r
