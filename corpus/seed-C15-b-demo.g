# expect: rejected
# props: C03 C15
add = (a : int) => (b : int) => a + b
limit = 10

if add limit (2 * 3) then 1 else 0
