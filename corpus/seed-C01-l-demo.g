# expect: rejected
# props: C01 C03
# Two type aliases written as local definition groups.
flag : (x = int; y = bool; y) = true
count : (x = int; x) = flag

count + 1
