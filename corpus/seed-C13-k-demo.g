# expect: rejected
# props: C03 C13
# The first definition refers to two helpers that are defined further down.
# Both helpers contain a type error.
total : int = double 1 + negate 2
double : (int -> int) = (x : int) => x + true
negate : (int -> int) = (y : int) => if y then 1 else 2
total
