# expect: rejected
# props: C03 C12
(p : int -> type) =>
(q : (z : int) -> p z) =>
a =>
x =>
  if true
  then (if true then a else ((y : int) => x))
  else q
