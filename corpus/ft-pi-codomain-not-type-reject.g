# expect: rejected
T = type
U = int
(c : U) => (x : int) -> c
