use proc_macro2::{TokenStream, TokenTree};
use quote::ToTokens;

// split macro args at top-level commas
fn split_args(ts: TokenStream) -> Vec<Vec<TokenTree>> {
    let mut out = vec![vec![]];
    for tt in ts {
        match &tt {
            TokenTree::Punct(p) if p.as_char() == ',' => out.push(vec![]),
            _ => out.last_mut().unwrap().push(tt),
        }
    }
    if out.last().map_or(false, |v| v.is_empty()) { out.pop(); }
    out
}
fn ts_string(v: &[TokenTree]) -> String { v.iter().map(|t| t.to_string()).collect::<Vec<_>>().join(" ") }

fn describe_macro(m: &syn::Macro) -> String {
    let name = m.path.segments.last().unwrap().ident.to_string();
    let args = split_args(m.tokens.clone());
    match name.as_str() {
        "cache_check" => format!("cache_check({})", ts_string(&args[1])),
        "consume_token_0" | "consume_token_1" => format!("{}({})", name, ts_string(&args[4])),
        "expect_token_0" | "expect_token_1" => format!("{}({}, report={})", name, ts_string(&args[3]), ts_string(&args[5])),
        "try_eval" | "try_return" => {
            let inner = ts_string(&args[2]);
            let callee = inner.split(' ').next().unwrap_or("").to_string();
            format!("{}({})", name, callee)
        }
        "cache_return" => {
            // find `variant : Variant :: X` in 3rd arg
            let s = ts_string(&args[2]);
            let v = s.find("variant : Variant ::").map(|i| s[i+20..].trim().split(|c: char| !c.is_alphanumeric()).next().unwrap_or("").to_string()).unwrap_or("<expr>".into());
            let grp = s.find("group :").map(|i| s[i+7..].trim().split(' ').next().unwrap_or("").to_string()).unwrap_or_default();
            format!("cache_return(variant={}, group={})", v, grp)
        }
        other => format!("{}!", other),
    }
}

fn walk_expr(e: &syn::Expr, out: &mut Vec<String>) {
    match e {
        syn::Expr::Macro(m) => out.push(describe_macro(&m.mac)),
        syn::Expr::Call(c) => {
            let f = c.func.to_token_stream().to_string();
            if f.starts_with("parse_") { out.push(format!("plain({})", f)); }
            for a in &c.args { walk_expr(a, out); }
        }
        syn::Expr::If(i) => { out.push("if{".into()); walk_expr(&i.cond, out); for s in &i.then_branch.stmts { walk_stmt(s, out); } if let Some((_, e)) = &i.else_branch { out.push("}else{".into()); walk_expr(e, out); } out.push("}".into()); }
        syn::Expr::Block(b) => for s in &b.block.stmts { walk_stmt(s, out); },
        syn::Expr::Tuple(t) => for e in &t.elems { walk_expr(e, out); },
        syn::Expr::Let(l) => walk_expr(&l.expr, out),
        _ => {}
    }
}
fn walk_stmt(s: &syn::Stmt, out: &mut Vec<String>) {
    match s {
        syn::Stmt::Local(l) => if let Some(init) = &l.init { walk_expr(&init.expr, out); },
        syn::Stmt::Expr(e, _) => walk_expr(e, out),
        syn::Stmt::Macro(m) => out.push(describe_macro(&m.mac)),
        _ => {}
    }
}
fn main() {
    let src = std::fs::read_to_string("/repo/src/parser.rs").unwrap();
    let file = syn::parse_file(&src).unwrap();
    for item in &file.items {
        if let syn::Item::Fn(f) = item {
            let name = f.sig.ident.to_string();
            if !name.starts_with("parse_") { continue; }
            let mut out = vec![];
            for s in &f.block.stmts { walk_stmt(s, &mut out); }
            println!("{name}: {}", out.join("; "));
        }
    }
}
