import Proto.Basic

mutual
def openT (t : Tm) (i : Nat) (u : Tm) (s : Nat) : Tm :=
  match t with
  | .var x j => if j = i then ushift 0 s u else if j > i then .var x (j - 1) else .var x j
  | .lam x im d b => .lam x im (openT d i u s) (openT b (i+1) u (s+1))
  | .pi x im d b => .pi x im (openT d i u s) (openT b (i+1) u (s+1))
  | .app f a => .app (openT f i u s) (openT a i u s)
  | .letg ds b => .letg (openDefs ds (i + ds.len) u (s + ds.len)) (openT b (i + ds.len) u (s + ds.len))
  | .neg a => .neg (openT a i u s)
  | .bin op a b => .bin op (openT a i u s) (openT b i u s)
  | .ite a b c => .ite (openT a i u s) (openT b i u s) (openT c i u s)
  | t => t
def openDefs (ds : Defs) (i : Nat) (u : Tm) (s : Nat) : Defs :=
  match ds with
  | .nil => .nil
  | .cons x a d r => .cons x (openT a i u s) (openT d i u s) (openDefs r i u s)
end

def isValue : Tm → Bool
  | .type | .lam .. | .pi .. | .int | .lit _ | .bool | .tt | .ff => true
  | _ => false

def delta (op : BinOp) (a b : Int) : Option Tm :=
  match op with
  | .sum => some (.lit (a + b))
  | .diff => some (.lit (a - b))
  | .prod => some (.lit (a * b))
  | .quot => if b = 0 then none else some (.lit (Int.tdiv a b))
  | .lt => some (if a < b then .tt else .ff)
  | .le => some (if a ≤ b then .tt else .ff)
  | .eq => some (if a = b then .tt else .ff)
  | .gt => some (if a > b then .tt else .ff)
  | .ge => some (if a ≥ b then .tt else .ff)

def Defs.mapOpen (ds : Defs) (i : Nat) (u : Tm) : Defs := openDefs ds i u 0

def step : Tm → Option Tm
  | .app f a =>
    match step f with
    | some f' => some (.app f' a)
    | none =>
      if !isValue f then none else
      match step a with
      | some a' => some (.app f a')
      | none =>
        if !isValue a then none else
        match f with
        | .lam _ _ _ body => some (openT body 0 a 0)
        | _ => none
  | .neg a =>
    match step a with
    | some a' => some (.neg a')
    | none => match a with
      | .lit n => some (.lit (-n))
      | _ => none
  | .bin op a b =>
    match step a with
    | some a' => some (.bin op a' b)
    | none =>
      if !isValue a then none else
      match step b with
      | some b' => some (.bin op a b')
      | none =>
        if !isValue b then none else
        match a, b with
        | .lit x, .lit y => delta op x y
        | _, _ => none
  | .ite c t e =>
    match step c with
    | some c' => some (.ite c' t e)
    | none => match c with
      | .tt => some t
      | .ff => some e
      | _ => none
  | .letg .nil body => some body
  | .letg (.cons x ann d rest) body =>
    match step d with
    | some d' => some (.letg (.cons x ann d' rest) body)
    | none =>
      if !isValue d then none else
      let idx := rest.len
      let self := Tm.var x 0
      let wrapper := Tm.letg (.cons x (openT (ushift 0 1 ann) (idx+1) self 0) (openT (ushift 0 1 d) (idx+1) self 0) .nil) self
      let unfolded := openT d idx wrapper 0
      some (.letg (openDefs rest idx unfolded 0) (openT body idx unfolded 0))
  | _ => none

def evalFuel : Nat → Tm → Tm
  | 0, t => t
  | n+1, t => match step t with
    | some t' => evalFuel n t'
    | none => t

-- factorial 5 with recursion through the group
def fact : Tm :=
  .letg (.cons "factorial" (.pi "_" false .int .int)
          (.lam "x" false .int
            (.ite (.bin .eq (.var "x" 0) (.lit 0)) (.lit 1)
              (.bin .prod (.var "x" 0) (.app (.var "factorial" 1) (.bin .diff (.var "x" 0) (.lit 1))))))
          .nil)
        (.app (.var "factorial" 0) (.lit 5))

#eval match evalFuel 200 fact with | .lit n => n | _ => -1

-- kernel evaluation of a witness
def isLit (n : Int) : Tm → Bool | .lit m => m == n | _ => false
theorem fact_eval : isLit 120 (evalFuel 200 fact) = true := by decide
-- the C01 forward-reference witness:  x = y + 1; y = 2; x   is stuck
def w : Tm := .letg (.cons "x" .int (.bin .sum (.var "y" 0) (.lit 1)) (.cons "y" .int (.lit 2) .nil)) (.var "x" 1)
theorem w_stuck : step w = none ∧ isValue w = false := by decide
#print axioms fact_eval
