/-! scratch prototype: feasibility of the term model + de Bruijn lemmas -/

inductive BinOp | sum | diff | prod | quot | lt | le | eq | gt | ge
deriving DecidableEq, Repr

mutual
inductive Tm : Type
  | hole (id : Nat) (shift : Nat)
  | type | int | bool | tt | ff
  | lit (n : Int)
  | var (name : String) (i : Nat)
  | lam (name : String) (imp : Bool) (dom body : Tm)
  | pi (name : String) (imp : Bool) (dom cod : Tm)
  | app (f a : Tm)
  | letg (defs : Defs) (body : Tm)
  | neg (a : Tm)
  | bin (op : BinOp) (a b : Tm)
  | ite (c t e : Tm)
inductive Defs : Type
  | nil
  | cons (name : String) (ann defn : Tm) (rest : Defs)
end

mutual
def Tm.size : Tm → Nat
  | .lam _ _ d b => d.size + b.size + 1
  | .pi _ _ d b => d.size + b.size + 1
  | .app f a => f.size + a.size + 1
  | .letg ds b => ds.size + b.size + 1
  | .neg a => a.size + 1
  | .bin _ a b => a.size + b.size + 1
  | .ite c t e => c.size + t.size + e.size + 1
  | _ => 1
def Defs.size : Defs → Nat
  | .nil => 0
  | .cons _ a d r => a.size + d.size + r.size + 1
end

def Defs.len : Defs → Nat
  | .nil => 0
  | .cons _ _ _ r => r.len + 1

-- signed shift
mutual
def sshift (c : Nat) (amt : Int) : Tm → Option Tm
  | .var x i =>
      if i ≥ c then
        let j : Int := (i : Int) + amt
        if j ≥ (c : Int) then some (.var x j.toNat) else none
      else some (.var x i)
  | .hole id s =>
      if s ≥ c then
        let j : Int := (s : Int) + amt
        if j ≥ (c : Int) then some (.hole id j.toNat) else none
      else some (.hole id s)
  | .lam x im d b => do
      let d' ← sshift c amt d
      let b' ← sshift (c+1) amt b
      pure (.lam x im d' b')
  | .pi x im d b => do
      let d' ← sshift c amt d
      let b' ← sshift (c+1) amt b
      pure (.pi x im d' b')
  | .app f a => do
      let f' ← sshift c amt f
      let a' ← sshift c amt a
      pure (.app f' a')
  | .letg ds b => do
      let ds' ← sshiftDefs (c + ds.len) amt ds
      let b' ← sshift (c + ds.len) amt b
      pure (.letg ds' b')
  | .neg a => do
      let a' ← sshift c amt a
      pure (.neg a')
  | .bin op a b => do
      let a' ← sshift c amt a
      let b' ← sshift c amt b
      pure (.bin op a' b')
  | .ite a b d => do
      let a' ← sshift c amt a
      let b' ← sshift c amt b
      let d' ← sshift c amt d
      pure (.ite a' b' d')
  | t => some t
def sshiftDefs (c : Nat) (amt : Int) : Defs → Option Defs
  | .nil => some .nil
  | .cons x a d r => do
      let a' ← sshift c amt a
      let d' ← sshift c amt d
      let r' ← sshiftDefs c amt r
      pure (.cons x a' d' r')
end

theorem Defs.len_sshift : ∀ (ds ds' : Defs) c amt, sshiftDefs c amt ds = some ds' → ds'.len = ds.len
  | .nil, ds', c, amt, h => by simp [sshiftDefs] at h; subst h; rfl
  | .cons x a d r, ds', c, amt, h => by
    simp only [sshiftDefs, bind, Option.bind_eq_some_iff, pure, Option.some.injEq] at h
    obtain ⟨a', _, d', _, r', hr, rfl⟩ := h
    simp [Defs.len, Defs.len_sshift r r' c amt hr]

mutual
theorem sshift_zero : ∀ (t : Tm) (c : Nat), sshift c 0 t = some t
  | .var x i, c => by simp [sshift]
  | .hole id s, c => by simp [sshift]
  | .lam x im d b, c => by simp [sshift, sshift_zero d c, sshift_zero b (c+1)]
  | .pi x im d b, c => by simp [sshift, sshift_zero d c, sshift_zero b (c+1)]
  | .app f a, c => by simp [sshift, sshift_zero f c, sshift_zero a c]
  | .letg ds b, c => by simp [sshift, sshiftDefs_zero ds (c + ds.len), sshift_zero b (c + ds.len)]
  | .neg a, c => by simp [sshift, sshift_zero a c]
  | .bin op a b, c => by simp [sshift, sshift_zero a c, sshift_zero b c]
  | .ite a b d, c => by simp [sshift, sshift_zero a c, sshift_zero b c, sshift_zero d c]
  | .type, c | .int, c | .bool, c | .tt, c | .ff, c | .lit _, c => by simp [sshift]
theorem sshiftDefs_zero : ∀ (ds : Defs) (c : Nat), sshiftDefs c 0 ds = some ds
  | .nil, c => by simp [sshiftDefs]
  | .cons x a d r, c => by simp [sshiftDefs, sshift_zero a c, sshift_zero d c, sshiftDefs_zero r c]
end

#print axioms sshift_zero

-- unsigned shift as a total function
mutual
def ushift (c a : Nat) : Tm → Tm
  | .var x i => if i ≥ c then .var x (i + a) else .var x i
  | .hole id s => if s ≥ c then .hole id (s + a) else .hole id s
  | .lam x im d b => .lam x im (ushift c a d) (ushift (c+1) a b)
  | .pi x im d b => .pi x im (ushift c a d) (ushift (c+1) a b)
  | .app f g => .app (ushift c a f) (ushift c a g)
  | .letg ds b => .letg (ushiftDefs (c + ds.len) a ds) (ushift (c + ds.len) a b)
  | .neg t => .neg (ushift c a t)
  | .bin op t u => .bin op (ushift c a t) (ushift c a u)
  | .ite t u v => .ite (ushift c a t) (ushift c a u) (ushift c a v)
  | t => t
def ushiftDefs (c a : Nat) : Defs → Defs
  | .nil => .nil
  | .cons x t u r => .cons x (ushift c a t) (ushift c a u) (ushiftDefs c a r)
end

theorem ushiftDefs_len : ∀ (ds : Defs) c a, (ushiftDefs c a ds).len = ds.len
  | .nil, _, _ => by simp [ushiftDefs, Defs.len]
  | .cons _ _ _ r, c, a => by simp [ushiftDefs, Defs.len, ushiftDefs_len r c a]

mutual
theorem sshift_ushift : ∀ (t : Tm) (c a : Nat), sshift c (a : Int) t = some (ushift c a t)
  | .var x i, c, a => by
      simp only [sshift, ushift]; split
      · have : ((i : Int) + (a : Int)) ≥ (c : Int) := by omega
        simp [this]; omega
      · rfl
  | .hole id s, c, a => by
      simp only [sshift, ushift]; split
      · have : ((s : Int) + (a : Int)) ≥ (c : Int) := by omega
        simp [this]; omega
      · rfl
  | .lam x im d b, c, a => by simp [sshift, ushift, sshift_ushift d c a, sshift_ushift b (c+1) a]
  | .pi x im d b, c, a => by simp [sshift, ushift, sshift_ushift d c a, sshift_ushift b (c+1) a]
  | .app f g, c, a => by simp [sshift, ushift, sshift_ushift f c a, sshift_ushift g c a]
  | .letg ds b, c, a => by simp [sshift, ushift, sshiftDefs_ushift ds (c + ds.len) a, sshift_ushift b (c + ds.len) a]
  | .neg t, c, a => by simp [sshift, ushift, sshift_ushift t c a]
  | .bin op t u, c, a => by simp [sshift, ushift, sshift_ushift t c a, sshift_ushift u c a]
  | .ite t u v, c, a => by simp [sshift, ushift, sshift_ushift t c a, sshift_ushift u c a, sshift_ushift v c a]
  | .type, c, a | .int, c, a | .bool, c, a | .tt, c, a | .ff, c, a | .lit _, c, a => by simp [sshift, ushift]
theorem sshiftDefs_ushift : ∀ (ds : Defs) (c a : Nat), sshiftDefs c (a : Int) ds = some (ushiftDefs c a ds)
  | .nil, c, a => by simp [sshiftDefs, ushiftDefs]
  | .cons x t u r, c, a => by simp [sshiftDefs, ushiftDefs, sshift_ushift t c a, sshift_ushift u c a, sshiftDefs_ushift r c a]
end

mutual
theorem ushift_ushift : ∀ (t : Tm) (c a b : Nat), ushift c a (ushift c b t) = ushift c (a + b) t
  | .var x i, c, a, b => by
      simp only [ushift]; split
      · simp only [ushift]; split <;> first | (congr 1; omega) | omega
      · simp only [ushift]; split <;> first | omega | rfl
  | .hole id s, c, a, b => by
      simp only [ushift]; split
      · simp only [ushift]; split <;> first | (congr 1; omega) | omega
      · simp only [ushift]; split <;> first | omega | rfl
  | .lam x im d e, c, a, b => by simp [ushift, ushift_ushift d c a b, ushift_ushift e (c+1) a b]
  | .pi x im d e, c, a, b => by simp [ushift, ushift_ushift d c a b, ushift_ushift e (c+1) a b]
  | .app f g, c, a, b => by simp [ushift, ushift_ushift f c a b, ushift_ushift g c a b]
  | .letg ds e, c, a, b => by simp [ushift, ushiftDefs_len, ushiftDefs_ushiftDefs ds (c + ds.len) a b, ushift_ushift e (c + ds.len) a b]
  | .neg t, c, a, b => by simp [ushift, ushift_ushift t c a b]
  | .bin op t u, c, a, b => by simp [ushift, ushift_ushift t c a b, ushift_ushift u c a b]
  | .ite t u v, c, a, b => by simp [ushift, ushift_ushift t c a b, ushift_ushift u c a b, ushift_ushift v c a b]
  | .type, c, a, b | .int, c, a, b | .bool, c, a, b | .tt, c, a, b | .ff, c, a, b | .lit _, c, a, b => by simp [ushift]
theorem ushiftDefs_ushiftDefs : ∀ (ds : Defs) (c a b : Nat), ushiftDefs c a (ushiftDefs c b ds) = ushiftDefs c (a + b) ds
  | .nil, c, a, b => by simp [ushiftDefs]
  | .cons x t u r, c, a, b => by simp [ushiftDefs, ushift_ushift t c a b, ushift_ushift u c a b, ushiftDefs_ushiftDefs r c a b]
end
#print axioms ushift_ushift
