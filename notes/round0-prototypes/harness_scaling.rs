#![allow(dead_code, unused_imports, unused_macros)]
#[path = "/repo/src/assertions.rs"] mod assertions;
#[path = "/repo/src/de_bruijn.rs"] mod de_bruijn;
#[path = "/repo/src/equality.rs"] mod equality;
#[path = "/repo/src/error.rs"] mod error;
#[path = "/repo/src/evaluator.rs"] mod evaluator;
#[path = "/repo/src/format.rs"] mod format;
#[path = "/repo/src/normalizer.rs"] mod normalizer;
#[path = "/repo/src/parser.rs"] mod parser;
#[path = "/repo/src/term.rs"] mod term;
#[path = "/repo/src/token.rs"] mod token;
#[path = "/repo/src/tokenizer.rs"] mod tokenizer;
#[path = "/repo/src/type_checker.rs"] mod type_checker;
#[path = "/repo/src/unifier.rs"] mod unifier;
use std::time::Instant;
fn fam(name: &str, n: usize) -> String {
    match name {
        "parens" => format!("{}1{}", "(".repeat(n), ")".repeat(n)),
        "unclosed" => format!("{}1", "(".repeat(n)),
        "sum" => vec!["1"; n].join(" + "),
        "mixed" => (0..n).map(|i| if i % 3 == 0 { "1 * 2" } else { "3" }).collect::<Vec<_>>().join(" - "),
        "app" => format!("f {}", vec!["x"; n].join(" ")),
        "lets" => format!("{}x0", (0..n).map(|i| format!("x{i} = {i}\n")).collect::<String>()),
        "ifs" => format!("{}1{}", "if true then ".repeat(n), " else 2".repeat(n)),
        "iftrunc" => "if true then ".repeat(n).to_string(),
        "lams" => format!("{}1", (0..n).map(|i| format!("(x{i} : int) => ")).collect::<String>()),
        "pis" => format!("{}int", (0..n).map(|i| format!("(x{i} : int) -> ")).collect::<String>()),
        "arrows" => vec!["int"; n].join(" -> "),
        "neg" => format!("{}1", "- ".repeat(n)),
        "cmpbad" => vec!["1"; n].join(" < "),
        "groupsum" => format!("{}1", "(1) + ".repeat(n)),
        "parenbad" => format!("{}1{}", "(".repeat(n), " else )".repeat(n)),
        _ => panic!(),
    }
}
fn main() {
    colored::control::set_override(false);
    let child = std::thread::Builder::new().stack_size(4usize<<30).spawn(move || {
        for name in ["parens","unclosed","sum","mixed","app","lets","ifs","iftrunc","lams","pis","arrows","neg","cmpbad","groupsum","parenbad"] {
            let mut line = format!("{name:10}");
            for n in [250usize, 500, 1000, 2000, 4000] {
                let src = fam(name, n);
                let t0 = Instant::now();
                let toks = tokenizer::tokenize(None, &src);
                let ok = match &toks { Ok(t) => { let r = parser::parse(None, &src, &t[..], &["f","x"]); r.is_ok() } Err(_) => false };
                let dt = t0.elapsed().as_secs_f64();
                line += &format!(" n={n}:{}{:.3}s", if ok {"ok "} else {"err "}, dt);
                if dt > 20.0 { break; }
            }
            println!("{line}");
        }
    }).unwrap();
    child.join().unwrap();
}
