import Proto.Eval

inductive Step : Tm → Tm → Prop
  | appL : Step f f' → Step (.app f a) (.app f' a)
  | appR : isValue f = true → Step a a' → Step (.app f a) (.app f a')
  | beta : isValue a = true → Step (.app (.lam x im d b) a) (openT b 0 a 0)
  | negC : Step a a' → Step (.neg a) (.neg a')
  | negD : Step (.neg (.lit n)) (.lit (-n))
  | binL : Step a a' → Step (.bin op a b) (.bin op a' b)
  | binR : isValue a = true → Step b b' → Step (.bin op a b) (.bin op a b')
  | binD : delta op x y = some r → Step (.bin op (.lit x) (.lit y)) r
  | iteC : Step c c' → Step (.ite c t e) (.ite c' t e)
  | iteT : Step (.ite .tt t e) t
  | iteF : Step (.ite .ff t e) e
  | letNil : Step (.letg .nil b) b
  | letC : Step d d' → Step (.letg (.cons x ann d rest) b) (.letg (.cons x ann d' rest) b)
  | letU : isValue d = true →
      Step (.letg (.cons x ann d rest) b)
        (let idx := rest.len
         let self := Tm.var x 0
         let wrapper := Tm.letg (.cons x (openT (ushift 0 1 ann) (idx+1) self 0) (openT (ushift 0 1 d) (idx+1) self 0) .nil) self
         let unfolded := openT d idx wrapper 0
         .letg (openDefs rest idx unfolded 0) (openT b idx unfolded 0))

theorem value_no_step : ∀ t, isValue t = true → step t = none := by
  intro t h; cases t <;> simp_all [isValue, step]

theorem step_sound : ∀ t t', step t = some t' → Step t t' := by
  intro t
  fun_induction step t <;> intro t' h <;> simp_all <;> subst_vars
  all_goals first
    | (constructor; assumption)
    | (constructor <;> assumption)
    | (exact Step.beta ‹_›)
    | exact Step.negD | exact Step.iteT | exact Step.iteF | exact Step.letNil
    | (exact Step.binD ‹_›)
    | (exact Step.letU ‹_›)
    | skip
